SPECIFICATION Spec
CONSTANTS
  MaxLinks = 3
INVARIANT GlueIsThrowPath
CONSTRAINT Emit
CHECK_DEADLOCK FALSE
