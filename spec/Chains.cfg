SPECIFICATION Spec
CONSTANT MaxLinks = 3
INVARIANT GlueIsThrowPath
CONSTRAINT Emit
CHECK_DEADLOCK FALSE
