------------------------- MODULE GlueInstallExport -------------------------
(* GlueInstall with a labelled next-state relation: the history variables `acts` (action label + thread/module)
   and `projs` (projection of the state after every action) are exported, in simulation mode, as one JSON
   line per complete behaviour for the schedule-replay driver (pattern R). *)
EXTENDS MC_GlueInstall, Json

VARIABLE acts
mcvars == <<vars, acts>>
Lab(a) == acts' = Append(acts, a)
AllDone == \A t \in Thr : pc[t] = "idle" /\ nExtract[t] = MaxExtract
MCInit == Init /\ acts = <<>>
MCNext == \/ \E m \in Mod : ~AllDone /\ ((Import(m) /\ Lab(<<"Import", m>>)) \/ (Remove(m) /\ Lab(<<"Remove", m>>)))
          \/ \E t \in Thr :
               \/ Start(t) /\ Lab(<<"Start", t>>)
               \/ LeaveCheck(t) /\ Lab(<<"LeaveCheck", t>>)
               \/ LeaveFast(t) /\ Lab(<<"LeaveFast", t>>)
               \/ LeaveWait(t) /\ Lab(<<"LeaveWait", t>>)
               \/ LeaveSnap(t) /\ Lab(<<"LeaveSnap", t>>)
               \/ LeaveNext(t) /\ Lab(<<"LeaveNext", t>>)
               \/ SkipVanished(t) /\ Lab(<<"SkipVanished", t>>)
               \/ LeavePopb(t) /\ Lab(<<"LeavePopb", t>>)
               \/ LeavePopm(t) /\ Lab(<<"LeavePopm", t>>)
               \/ LeaveCalled(t) /\ Lab(<<"LeaveCalled", t>>)
               \/ LeaveCache(t) /\ Lab(<<"LeaveCache", t>>)
               \/ LeaveRelease(t) /\ Lab(<<"LeaveRelease", t>>)
MCSpec == MCInit /\ [][MCNext]_mcvars

\* what the replay driver compares after every action
Proj == [sysmods |-> sysmods, pending |-> [m \in Mod |-> m \in pending], fnLeft |-> fnLeft,
         cache |-> cacheLen, lock |-> lock, calls |-> calls, warned |-> warned,
         pc |-> [t \in Thr |-> pc[t]]]
VARIABLE projs
\* export variant: also remember the projection after every step
XInit == MCInit /\ projs = <<>>
XNext == MCNext /\ projs' = Append(projs, Proj')
XSpec == XInit /\ [][XNext]_<<mcvars, projs>>
Emit == AllDone => PrintT(<<"EMIT", ToJson([acts |-> acts, projs |-> projs,
                                            flags |-> [lenCollision |-> lenCollision, vanishedPop |-> vanishedPop]])>>)
=============================================================================
