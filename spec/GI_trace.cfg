\* pattern T: free-running traces (GI_TRACES=<json>); attribute vector as in GI_both.cfg
SPECIFICATION TSpec
CONSTANTS
  Mod <- ModAB
  Thr = {"t1", "t2", "t3"}
  NoT = "none"
  HasB <- ModAB
  Flavour <- FlavBoth
  ImpTarget = "b"
  MaxEnv = 99
  MaxExtract = 99
  FixedF9 = TRUE
CONSTRAINT Progress
CHECK_DEADLOCK FALSE
