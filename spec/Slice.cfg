\* C04: AlgSlice == RefSlice for every given stack shape, every (outer, inner, limit)
SPECIFICATION Spec
INVARIANT Same
CONSTRAINT Emit
CHECK_DEADLOCK FALSE
