-------------------------- MODULE GlueInstallTrace --------------------------
(***************************************************************************)
(* Pattern T for M4: FREE-RUNNING threads (no schedule control) extract     *)
(* while an environment thread edits sys.modules.  The guarded probes H2     *)
(* only LOG (one global, GIL-ordered list): an event says that a thread has  *)
(* ARRIVED at a probe point.  The piece of code between two points -- the    *)
(* specification's Leave* action -- ran at some unlogged instant between the *)
(* two arrivals, so the trace spec lets every thread take ONE silent GlueInstall    *)
(* action per logged arrival (the harness also logs the return to idle) and TLC infers a placement that    *)
(* explains the whole trace.  Environment edits are bracketed by begin/end   *)
(* events and take effect silently in between.                              *)
(* Only timing-insensitive invariants are checked on traces (at-most-once,   *)
(* module-beats-builtin, lock discipline): which extraction "started after"  *)
(* an import is not observable without schedule control.                     *)
(***************************************************************************)
EXTENDS MC_GlueInstall, Json, IOUtils

Traces == JsonDeserialize(IOEnv.GI_TRACES)
VARIABLES tid, l, budget, envPending
tvars == <<vars, tid, l, budget, envPending>>
Tr == Traces[tid]
Ev == Tr.events[l]
More == l <= Len(Tr.events)

TInit == /\ tid \in 1..Len(Traces) /\ l = 1 /\ Init
         /\ budget = [t \in Thr |-> 1] /\ envPending = <<"-", "-">>

\* a thread runs the code between two probe points, unobserved
Silent(t) == /\ budget[t] > 0 /\ ThreadStep(t)
             /\ budget' = [budget EXCEPT ![t] = @ - 1] /\ UNCHANGED <<tid, l, envPending>>
\* logged: thread t is standing at point p
Arrive == /\ More /\ Ev.e = "arrive" /\ pc[Ev.t] = Ev.p
          /\ (Ev.p \in {"next", "popb", "popm", "called"} => Cur(Ev.t) = Ev.m)
          /\ budget' = [budget EXCEPT ![Ev.t] = 1]
          /\ l' = l + 1 /\ UNCHANGED <<vars, tid, envPending>>
\* the environment thread announces an edit, performs it (silently), and reports completion
EnvBegin == /\ More /\ Ev.e = "begin" /\ envPending = <<"-", "-">> /\ envPending' = <<Ev.op, Ev.m>>
            /\ l' = l + 1 /\ UNCHANGED <<vars, tid, budget>>
EnvDo == /\ envPending[1] # "-" /\ envPending[1] # "done"
         /\ (IF envPending[1] = "Import" THEN Import(envPending[2]) ELSE Remove(envPending[2]))
         /\ envPending' = <<"done", envPending[2]>> /\ UNCHANGED <<tid, l, budget>>
EnvEnd == /\ More /\ Ev.e = "end" /\ envPending[1] = "done" /\ envPending' = <<"-", "-">>
          /\ l' = l + 1 /\ UNCHANGED <<vars, tid, budget>>
TNext == Arrive \/ EnvBegin \/ EnvDo \/ EnvEnd \/ (\E t \in Thr : Silent(t))
TSpec == TInit /\ [][TNext]_tvars

Consumed == l > Len(Tr.events)
\* at the end every thread can still run to completion and the call log is the one that was really observed
FinalOK == Consumed /\ calls = Tr.calls
Progress == IF Consumed
            THEN PrintT(<<"EMIT", ToJson([tid |-> tid, l |-> l, final |-> (calls = Tr.calls),
                                          once |-> AtMostOnce, beats |-> ModuleBeatsBuiltin, lockok |-> (LockDiscipline /\ OneInside)])>>)
            ELSE PrintT(<<"EMIT", ToJson([tid |-> tid, l |-> l])>>)
=============================================================================
