\* replay export (run with -simulate)
SPECIFICATION SpecAlt
CONSTANTS
  G = {"g1", "g2", "g3"}
  MaxDepth = 2
  MaxSteps = 16
INVARIANT LiveTree
CONSTRAINT Emit
CHECK_DEADLOCK FALSE
