---------------------------- MODULE GlueInstall ----------------------------
(***************************************************************************)
(* M4: stackscope._glue.add_glue_as_needed -- installing library glue at    *)
(* the start of every extraction, under concurrency and while the           *)
(* environment edits sys.modules.                                           *)
(*                                                                         *)
(* The model is written at the granularity of the guarded probes H2: a      *)
(* thread's pc is the probe point it is standing at, and each action        *)
(* "LeaveX(t)" is the piece of code between point X and the next point.     *)
(* That makes every behaviour directly replayable: the controller releases  *)
(* exactly the thread TLC scheduled and checks where it arrives.            *)
(*                                                                         *)
(*   idle -Start-> check -> fast -> idle                                    *)
(*                     \-> wait -(lock)-> snap -> [next -> popb -> popm ->  *)
(*                          called ->]* cache -> release -> idle            *)
(***************************************************************************)
EXTENDS Naturals, Sequences, FiniteSets, TLC

CONSTANTS Mod,          \* synthetic module names
          Thr,          \* extracting threads
          NoT,          \* "no thread" (lock free)
          HasB,         \* subset of Mod with a pending built-in glue function
          Flavour,      \* [Mod -> {"none","ok","raises","imports","removes"}] : the module's own glue function
          ImpTarget,    \* the module an "imports" / "removes" glue function imports / removes
          MaxEnv,       \* bound on environment actions
          MaxExtract,   \* extractions per thread
          FixedF9       \* TRUE: a module that is gone when its turn comes is skipped before anything is popped

VARIABLES sysmods,      \* sys.modules restricted to Mod, in insertion order
          fnLeft,       \* [Mod -> BOOLEAN] the module object still has _stackscope_install_glue_
          pending,      \* built-in glue functions not yet run
          cacheLen,     \* the length cache
          lock,
          pc, snap, idx, popB, popM, skipped, \* per thread (skipped: vanished modules passed over in this scan)
          nExtract, startMods, removedSince,  \* per thread (history)
          calls, warned, envSteps,            \* history
          lenCollision, lastScanned, vanishedPop
vars == <<sysmods, fnLeft, pending, cacheLen, lock, pc, snap, idx, popB, popM, skipped, nExtract, startMods,
          removedSince, calls, warned, envSteps, lenCollision, lastScanned, vanishedPop>>

InSys(m) == \E i \in 1..Len(sysmods) : sysmods[i] = m
SetOf(s) == {s[i] : i \in 1..Len(s)}
Without(s, m) == SelectSeq(s, LAMBDA x : x # m)

Init == /\ sysmods = <<>> /\ fnLeft = [m \in Mod |-> Flavour[m] # "none"] /\ pending = HasB
        /\ cacheLen = 0 /\ lock = NoT
        /\ pc = [t \in Thr |-> "idle"] /\ snap = [t \in Thr |-> <<>>] /\ idx = [t \in Thr |-> 0]
        /\ popB = [t \in Thr |-> FALSE] /\ popM = [t \in Thr |-> FALSE] /\ skipped = [t \in Thr |-> 0]
        /\ nExtract = [t \in Thr |-> 0] /\ startMods = [t \in Thr |-> {}] /\ removedSince = [t \in Thr |-> {}]
        /\ calls = <<>> /\ warned = 0 /\ envSteps = 0
        /\ lenCollision = FALSE /\ lastScanned = {} /\ vanishedPop = FALSE

ThreadVars == <<pc, snap, idx, popB, popM, skipped, nExtract, startMods>>
Hist == <<calls, warned, lenCollision, lastScanned, vanishedPop>>

(* ---- the environment: imports, removals, re-insertions (same module object) *)
Import(m) == /\ envSteps < MaxEnv /\ ~InSys(m) /\ sysmods' = Append(sysmods, m) /\ envSteps' = envSteps + 1
             /\ UNCHANGED <<fnLeft, pending, cacheLen, lock, removedSince>> /\ UNCHANGED ThreadVars /\ UNCHANGED Hist
Remove(m) == /\ envSteps < MaxEnv /\ InSys(m) /\ sysmods' = Without(sysmods, m) /\ envSteps' = envSteps + 1
             /\ removedSince' = [t \in Thr |-> removedSince[t] \cup {m}]
             /\ UNCHANGED <<fnLeft, pending, cacheLen, lock>> /\ UNCHANGED ThreadVars /\ UNCHANGED Hist

(* ---- one extraction *)
Go(t, p) == pc' = [pc EXCEPT ![t] = p]
Start(t) == /\ pc[t] = "idle" /\ nExtract[t] < MaxExtract /\ Go(t, "check")
            /\ nExtract' = [nExtract EXCEPT ![t] = @ + 1]
            /\ startMods' = [startMods EXCEPT ![t] = SetOf(sysmods)]
            /\ removedSince' = [removedSince EXCEPT ![t] = {}]
            /\ UNCHANGED <<sysmods, fnLeft, pending, cacheLen, lock, snap, idx, popB, popM, skipped, envSteps>> /\ UNCHANGED Hist
(* line 94: the fast path compares only lengths *)
LeaveCheck(t) == /\ pc[t] = "check"
                 /\ IF Len(sysmods) = cacheLen
                    THEN Go(t, "fast") /\ lenCollision' = (lenCollision \/ SetOf(sysmods) # lastScanned)
                    ELSE Go(t, "wait") /\ lenCollision' = lenCollision
                 /\ UNCHANGED <<sysmods, fnLeft, pending, cacheLen, lock, snap, idx, popB, popM, skipped, nExtract, startMods,
                                removedSince, calls, warned, envSteps, lastScanned, vanishedPop>>
LeaveFast(t) == /\ pc[t] = "fast" /\ Go(t, "idle")
                /\ UNCHANGED <<sysmods, fnLeft, pending, cacheLen, lock, snap, idx, popB, popM, skipped, nExtract, startMods,
                               removedSince, envSteps>> /\ UNCHANGED Hist
(* lines 98-99: take the lock, snapshot the module names *)
LeaveWait(t) == /\ pc[t] = "wait" /\ lock = NoT /\ lock' = t /\ Go(t, "snap")
                /\ snap' = [snap EXCEPT ![t] = sysmods] /\ idx' = [idx EXCEPT ![t] = 0]
                /\ skipped' = [skipped EXCEPT ![t] = 0]
                /\ UNCHANGED <<sysmods, fnLeft, pending, cacheLen, popB, popM, nExtract, startMods, removedSince, envSteps>>
                /\ UNCHANGED Hist
\* advance to the next module of the snapshot, or finish the scan: the cache is set to len(snapshot) (line 130)
Advance(t, sk) ==
              /\ skipped' = [skipped EXCEPT ![t] = sk]
              /\ IF idx[t] < Len(snap[t])
                 THEN /\ idx' = [idx EXCEPT ![t] = @ + 1] /\ Go(t, "next")
                      /\ UNCHANGED <<cacheLen, lastScanned>>
                 ELSE /\ Go(t, "cache") /\ lastScanned' = SetOf(snap[t])
                      \* repaired: skipped (vanished) modules do not count, so a module that comes back is looked at again
                      /\ cacheLen' = IF FixedF9 THEN Len(snap[t]) - sk ELSE Len(snap[t])
                      /\ UNCHANGED idx
LeaveSnap(t) == /\ pc[t] = "snap" /\ Advance(t, skipped[t])
                /\ UNCHANGED <<sysmods, fnLeft, pending, lock, snap, popB, popM, nExtract, startMods, removedSince,
                               calls, warned, envSteps, lenCollision, vanishedPop>>
Cur(t) == snap[t][idx[t]]
(* line 101: builtin_glue_pending.pop(module_name, None) *)
LeaveNext(t) == /\ pc[t] = "next"
                /\ ~(FixedF9 /\ ~InSys(Cur(t)))
                /\ popB' = [popB EXCEPT ![t] = Cur(t) \in pending]
                /\ pending' = pending \ {Cur(t)}
                /\ vanishedPop' = (vanishedPop \/ ~InSys(Cur(t)))
                /\ Go(t, "popb")
                /\ UNCHANGED <<sysmods, fnLeft, cacheLen, lock, snap, idx, popM, skipped, nExtract, startMods, removedSince,
                               calls, warned, envSteps, lenCollision, lastScanned>>
\* repaired (FixedF9): a module that is no longer in sys.modules is skipped before anything is popped
SkipVanished(t) == /\ pc[t] = "next" /\ FixedF9 /\ ~InSys(Cur(t)) /\ Advance(t, skipped[t] + 1)
                   /\ UNCHANGED <<sysmods, fnLeft, pending, lock, snap, popB, popM, nExtract, startMods, removedSince,
                                  calls, warned, envSteps, lenCollision, vanishedPop>>
(* lines 102-107: sys.modules[name].__dict__.pop(...); a vanished module is treated like "has no glue" *)
LeavePopb(t) == /\ pc[t] = "popb"
                \* repaired (FixedF9): the module object was fetched once at "next"; a later removal cannot race
                /\ LET present == FixedF9 \/ InSys(Cur(t)) IN
                   /\ popM' = [popM EXCEPT ![t] = present /\ fnLeft[Cur(t)]]
                   /\ fnLeft' = IF present THEN [fnLeft EXCEPT ![Cur(t)] = FALSE] ELSE fnLeft
                   /\ vanishedPop' = (vanishedPop \/ ~present)
                /\ Go(t, "popm")
                /\ UNCHANGED <<sysmods, pending, cacheLen, lock, snap, idx, popB, skipped, nExtract, startMods, removedSince,
                               calls, warned, envSteps, lenCollision, lastScanned>>
(* lines 108-127: module-supplied glue preferred; an exception is only a warning *)
LeavePopm(t) ==
  /\ pc[t] = "popm"
  /\ LET m == Cur(t)
         kind == IF popM[t] THEN "module" ELSE IF popB[t] THEN "builtin" ELSE "none"
         fl == IF kind = "module" THEN Flavour[m] ELSE "ok"
     IN /\ calls' = IF kind = "none" THEN calls ELSE Append(calls, <<m, kind>>)
        /\ warned' = IF kind = "module" /\ fl = "raises" THEN warned + 1 ELSE warned
        /\ sysmods' = IF kind = "module" /\ fl = "imports" /\ ~InSys(ImpTarget) THEN Append(sysmods, ImpTarget)
                      ELSE IF kind = "module" /\ fl = "removes" THEN Without(sysmods, ImpTarget)
                      ELSE sysmods
        /\ removedSince' = IF kind = "module" /\ fl = "removes" /\ InSys(ImpTarget)
                           THEN [u \in Thr |-> removedSince[u] \cup {ImpTarget}] ELSE removedSince
  /\ Go(t, "called")
  /\ UNCHANGED <<fnLeft, pending, cacheLen, lock, snap, idx, popB, popM, skipped, nExtract, startMods, envSteps,
                 lenCollision, lastScanned, vanishedPop>>
LeaveCalled(t) == /\ pc[t] = "called" /\ Advance(t, skipped[t])
                  /\ UNCHANGED <<sysmods, fnLeft, pending, lock, snap, popB, popM, nExtract, startMods, removedSince,
                                 calls, warned, envSteps, lenCollision, vanishedPop>>
LeaveCache(t) == /\ pc[t] = "cache" /\ lock' = NoT /\ Go(t, "release")
                 /\ UNCHANGED <<sysmods, fnLeft, pending, cacheLen, snap, idx, popB, popM, skipped, nExtract, startMods,
                                removedSince, envSteps>> /\ UNCHANGED Hist
LeaveRelease(t) == /\ pc[t] = "release" /\ Go(t, "idle")
                   /\ UNCHANGED <<sysmods, fnLeft, pending, cacheLen, lock, snap, idx, popB, popM, skipped, nExtract, startMods,
                                  removedSince, envSteps>> /\ UNCHANGED Hist

ThreadStep(t) == Start(t) \/ LeaveCheck(t) \/ LeaveFast(t) \/ LeaveWait(t) \/ LeaveSnap(t) \/ LeaveNext(t) \/ SkipVanished(t)
                 \/ LeavePopb(t) \/ LeavePopm(t) \/ LeaveCalled(t) \/ LeaveCache(t) \/ LeaveRelease(t)
Next == (\E m \in Mod : Import(m) \/ Remove(m)) \/ (\E t \in Thr : ThreadStep(t))
Spec == Init /\ [][Next]_vars

---------------------------------------------------------------------------
GlueBearing(m) == m \in HasB \/ Flavour[m] # "none"
Served(m) == m \notin pending /\ ~fnLeft[m]
CallsOf(m) == {i \in 1..Len(calls) : calls[i][1] = m}

AtMostOnce == \A m \in Mod : Cardinality(CallsOf(m)) <= 1
ModuleBeatsBuiltin == \A i \in 1..Len(calls) : calls[i][2] = "builtin" => Flavour[calls[i][1]] = "none"
\* by the time an extraction returns, every glue-bearing module that was present when it started (and has not
\* been removed since) has been served
Returning(t) == pc[t] \in {"release"} \/ (pc[t] = "fast")
InTimeStrict == \A t \in Thr : pc[t] \in {"fast", "release"} =>
                   \A m \in (startMods[t] \ removedSince[t]) : GlueBearing(m) => Served(m)
LockDiscipline == \A t \in Thr : pc[t] \in {"snap", "next", "popb", "popm", "called", "cache"} => lock = t
OneInside == Cardinality({t \in Thr : pc[t] \in {"snap", "next", "popb", "popm", "called", "cache"}}) <= 1
\* a raising glue function never stops the scan: whoever holds the lock finishes the snapshot
WarnOnly == warned <= Cardinality({m \in Mod : Flavour[m] = "raises"})

\* with the two known causes named (F4: equal length, different module set; F9: a module vanished mid-scan)
AtMostOnceX == vanishedPop \/ AtMostOnce
ModuleBeatsBuiltinX == vanishedPop \/ ModuleBeatsBuiltin
InTime == lenCollision \/ vanishedPop \/ InTimeStrict
\* with the F9 repair in place only the length cache (F4) remains as a named cause
InTimeF4 == lenCollision \/ InTimeStrict
=============================================================================
