----------------------------- MODULE Greenlets -----------------------------
(***************************************************************************)
(* M8 (greenlet forests) for C15.                                           *)
(* A controller (the thread's main greenlet, "main") drives greenlets       *)
(* g \in G.  Every greenlet body is an interpreter: an entry function       *)
(* (the depth-0 interpreter) that calls a recursive loop for deeper levels;  *)
(* each level suspends by switching to main and obeys the command it is     *)
(* resumed with.  So the own segment of a started greenlet is               *)
(*   entry, loop x depth   and its switch point is the innermost of them.   *)
(*                                                                         *)
(* State: parent[g] \in G \cup {"main"}, st[g] \in {"unstarted",            *)
(* "suspended", "dead"}, depth[g].  An observation names who calls          *)
(* extract(target): main ("outside"), the target itself ("self"), another   *)
(* greenlet ("from", h) or another thread.                                  *)
(*                                                                         *)
(* Expected(target) -- what extract(target) must return -- is the target's  *)
(* OWN segment whatever the observer (empty for unstarted / dead).          *)
(***************************************************************************)
EXTENDS Naturals, Sequences, FiniteSets, TLC, Json

CONSTANTS G, MaxDepth, MaxSteps

VARIABLES parent, st, depth, acts, steps
vars == <<parent, st, depth, acts, steps>>

Nodes == G \cup {"main"}
\* parent chains must be acyclic and end in main: chosen once, in Init
RECURSIVE Reaches(_, _, _)
Reaches(p, g, fuel) == IF g = "main" THEN TRUE ELSE IF fuel = 0 THEN FALSE ELSE Reaches(p, p[g], fuel - 1)
Init == /\ parent \in {p \in [G -> Nodes] : \A g \in G : p[g] # g /\ Reaches(p, g, Cardinality(G))}
        /\ st = [g \in G |-> "unstarted"] /\ depth = [g \in G |-> 0]
        /\ acts = <<>> /\ steps = 0

Alive(x) == IF x = "main" THEN TRUE ELSE st[x] = "suspended"
SegLen(g) == IF st[g] = "suspended" THEN depth[g] + 1 ELSE 0     \* entry (the depth-0 interpreter) + depth loop frames
IsAncestor(a, g) == \E n \in 1..Cardinality(G) :
                      LET RECURSIVE Up(_, _)
                          Up(x, k) == IF k = 0 THEN x ELSE IF x = "main" THEN "main" ELSE Up(parent[x], k - 1)
                      IN Up(g, n) = a

Tick(a) == steps < MaxSteps /\ steps' = steps + 1 /\ acts' = Append(acts, a)
\* a greenlet can only be started / finished while its parent can take over when it dies
Start(g) == /\ st[g] = "unstarted" /\ Alive(parent[g])
            /\ st' = [st EXCEPT ![g] = "suspended"] /\ UNCHANGED <<parent, depth>>
            /\ Tick([a |-> "start", g |-> g, h |-> "-", n |-> 0])
Call(g) == /\ st[g] = "suspended" /\ depth[g] < MaxDepth
           /\ depth' = [depth EXCEPT ![g] = @ + 1] /\ UNCHANGED <<parent, st>>
           /\ Tick([a |-> "call", g |-> g, h |-> "-", n |-> 0])
Return(g) == /\ st[g] = "suspended" /\ depth[g] > 0
             /\ depth' = [depth EXCEPT ![g] = @ - 1] /\ UNCHANGED <<parent, st>>
             /\ Tick([a |-> "return", g |-> g, h |-> "-", n |-> 0])
Finish(g) == /\ st[g] = "suspended" /\ depth[g] = 0 /\ Alive(parent[g])
             /\ \A c \in G : parent[c] = g => st[c] # "suspended"       \* keep the forest's live part a tree rooted in main
             /\ st' = [st EXCEPT ![g] = "dead"] /\ UNCHANGED <<parent, depth>>
             /\ Tick([a |-> "finish", g |-> g, h |-> "-", n |-> 0])
\* extract(target) called by: "main" (outside), target itself, or another suspended greenlet h (resumed for the purpose)
Observe(obs, target) ==
  /\ (IF obs = "main" THEN TRUE ELSE st[obs] = "suspended")
  /\ UNCHANGED <<parent, st, depth>>
  /\ Tick([a |-> "observe", g |-> target, h |-> obs, n |-> SegLen(target)])

Next == \E g \in G : Start(g) \/ Call(g) \/ Return(g) \/ Finish(g) \/ (\E o \in Nodes : Observe(o, g))
\* for the replay export (simulation): alternate one structural action with one observation, so that random
\* behaviours do not consist of observations only
NextAlt == \E g \in G : \/ (steps % 2 = 0 /\ (Start(g) \/ Call(g) \/ Return(g) \/ Finish(g)))
                         \/ (steps % 2 = 1 /\ \E o \in Nodes : Observe(o, g))
SpecAlt == Init /\ [][NextAlt]_vars
View == <<parent, st, depth>>
Spec == Init /\ [][Next]_vars

---------------------------------------------------------------------------
\* structural invariants of the environment model
LiveTree == \A g \in G : st[g] = "suspended" => Alive(parent[g])
DepthBound == \A g \in G : depth[g] <= MaxDepth /\ (st[g] # "suspended" => depth[g] = 0 \/ st[g] = "dead")
\* the F8 situation: the observer is a proper descendant of a suspended target
F8Shape(obs, target) == obs # "main" /\ obs # target /\ IsAncestor(target, obs)

\* Greenback: a task alternating async frames a(k) and sync frames s(k) through await_ bridges, d alternations deep:
\*   a(d) -> s(d) -> a(d-1) -> ... -> s(1) -> a(0)      (the bridging internals are hidden frames in between)
Bridge(d) == [i \in 1..(2 * d + 1) |-> IF i % 2 = 1 THEN <<"a", d - (i - 1) \div 2>> ELSE <<"s", d - (i \div 2) + 1>>]
Bridges == [d \in 1..4 |-> Bridge(d - 1)]
Emit == (steps = MaxSteps) => PrintT(<<"EMIT", ToJson([parent |-> parent, acts |-> acts, bridges |-> Bridges])>>)
=============================================================================
