\* C12: static scenarios (towers, nestings, customize combinations) + exhaustive registry/IdentityDict histories
SPECIFICATION Spec
CONSTANTS
  MaxTower = 3
  MaxOps = 3
INVARIANT DispatchExact
INVARIANT DictWellFormed
INVARIANT RegWellFormed
CONSTRAINT Emit
CHECK_DEADLOCK FALSE
