\* C05 on the model: up to two raising hook-table entries (unwrap raises, iterator step raises, elaborate raises,
\* context analysis raises) anywhere in the tables: the generator never lets an exception escape, a frame whose
\* own hook raised is kept and un-hidden, and the result still equals the documented rules (raise == PRUNE)
SPECIFICATION Spec
CONSTANTS
  NF = 2
  NW = 2
  NL = 1
  MaxLen = 2
  MaxLoops = 100
  MaxFaults = 2
  UKinds = {"none", "raise", "seq", "iterfail"}
  EKinds = {"none", "raise", "replace", "insert"}
  Cyclic = FALSE
  AllowNone = FALSE
  ETargetSet = {2, 4}
  MaxOut = 5
  CtxFaults = TRUE
  Fixed = TRUE
  Roots = {3}
  GenT = {}
  FixedF5 = TRUE
  NoWeak = {}
INVARIANT NeverEscapes
INVARIANT ElabFaultKept
INVARIANT EquivRef
INVARIANT FaultsAllRecorded
CONSTRAINT Bound
CHECK_DEADLOCK FALSE
