\* replay export (run with -simulate)
SPECIFICATION Spec
CONSTANTS
  Threads = {"A", "B"}
  MaxD = 2
  MaxSteps = 14
INVARIANT TailOnlyWhenServing
CONSTRAINT Emit
CHECK_DEADLOCK FALSE
