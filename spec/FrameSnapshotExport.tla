------------------------ MODULE FrameSnapshotExport ------------------------
(* export of complete behaviours (inspector finished) for the schedule replay driver *)
EXTENDS FrameSnapshot, Json
Emit == Ended => PrintT(<<"EMIT", ToJson([acts |-> acts, result |-> result, lb |-> lb, snap |-> snap, attempt |-> attempt,
                                          crashed |-> crashed, iter |-> iter])>>)
=============================================================================
