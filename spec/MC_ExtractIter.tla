------------------------- MODULE MC_ExtractIter -------------------------
(* Model-checking wrapper for ExtractIter: constants as definitions where the cfg syntax cannot
   express them, and the terminal-state export for the replay driver. *)
EXTENDS ExtractIter, Json

\* one JSON line per terminal state: the drawn tables, the root, and the expected result
Export == [root |-> root,
           U |-> TableSeq(U, DOMAIN U), E |-> TableSeq(E, DOMAIN E),
           C |-> [i \in 1..NF |-> IF i \in DOMAIN C THEN C[i] ELSE 0],
           pc |-> pc, out |-> out, leaf |-> leaf, errors |-> errors]
Emit == (pc \in {"done", "escaped"}) => PrintT(<<"EMIT", ToJson(Export)>>)
BoundEmit == Bound /\ Emit
=============================================================================
