\* pattern R export (run with -simulate): random interleavings, printed when every thread is done
SPECIFICATION XSpec
CONSTANTS
  Mod <- ModAB
  Thr = {"t1", "t2"}
  NoT = "none"
  HasB <- ModAB
  Flavour <- FlavBoth
  ImpTarget = "b"
  MaxEnv = 4
  MaxExtract = 2
  FixedF9 = FALSE
INVARIANT AtMostOnceX
INVARIANT ModuleBeatsBuiltinX
INVARIANT InTime
INVARIANT LockDiscipline
CONSTRAINT Emit
CHECK_DEADLOCK FALSE
