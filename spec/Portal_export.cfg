\* replay export: every behaviour of MaxSteps actions (or -simulate for longer ones)
SPECIFICATION Spec
CONSTANTS
  MaxDepth = 4
  MaxSteps = 3
  FixedF17 = TRUE
  WithCms = FALSE
\* INVARIANT BridgeContinuesInside
CONSTRAINT Emit
CHECK_DEADLOCK FALSE
