------------------------------ MODULE Trickery ------------------------------
(***************************************************************************)
(* M6: the mode switch of stackscope._lowlevel (set_trickery_enabled, the   *)
(* tri-state global, the self-test that caches its verdict).                *)
(*   mode \in {"none", "on", "off"}     the global _can_use_trickery         *)
(*   Set(t, v)      a thread calls set_trickery_enabled(v)                   *)
(*   Extract(t)     a thread extracts: the implementation used is `mode`     *)
(*                  if it is set; otherwise the self-test runs (it succeeds  *)
(*                  on CPython), its verdict "on" is cached, and is used     *)
(* History `acts` records, for every extraction, which implementation the    *)
(* specification says was used.                                             *)
(***************************************************************************)
EXTENDS Naturals, Sequences, TLC, Json

CONSTANTS Thr, MaxSteps
VARIABLES mode, acts
vars == <<mode, acts>>
Init == mode = "none" /\ acts = <<>>
Set(t, v) == /\ Len(acts) < MaxSteps /\ mode' = v
             /\ acts' = Append(acts, [t |-> t, a |-> "set", v |-> v, used |-> "-"])
Extract(t) == /\ Len(acts) < MaxSteps
              /\ LET used == IF mode = "none" THEN "on" ELSE mode IN
                 /\ mode' = used           \* auto-detection caches its verdict
                 /\ acts' = Append(acts, [t |-> t, a |-> "extract", v |-> "-", used |-> used])
Next == \E t \in Thr : Extract(t) \/ (\E v \in {"none", "on", "off"} : Set(t, v))
Spec == Init /\ [][Next]_vars

\* set_trickery_enabled(True/False) takes effect for the next extraction on ANY thread; None restores auto-detection
RECURSIVE LastSet(_)
LastSet(k) == IF k = 0 THEN "none" ELSE IF acts[k].a = "set" THEN acts[k].v ELSE LastSet(k - 1)
SetTakesEffect == \A k \in 1..Len(acts) : acts[k].a = "extract" =>
                     acts[k].used = (IF LastSet(k - 1) = "none" THEN "on" ELSE LastSet(k - 1))
Emit == (Len(acts) = MaxSteps) => PrintT(<<"EMIT", ToJson([acts |-> acts])>>)
=============================================================================
