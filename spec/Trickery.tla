------------------------------ MODULE Trickery ------------------------------
(***************************************************************************)
(* M6: the mode switch of stackscope._lowlevel (set_trickery_enabled, the   *)
(* tri-state global _can_use_trickery, the self-test that caches its        *)
(* verdict), at the grain of the code:                                      *)
(*                                                                         *)
(*   set_trickery_enabled(v):   with _trickery_lock: mode = v               *)
(*   _check_trickery_available():                                           *)
(*       if mode is not None: return mode          -- Begin, lock-free      *)
(*       with _trickery_lock:                      -- Acquire               *)
(*           if mode is not None: return mode      -- Finish (re-check)     *)
(*           mode = <self-test verdict>; return it -- Finish (probe)        *)
(*                                                                         *)
(*   mode \in {"none", "on", "off"}   the global                            *)
(*   lock \in Thr \cup {"free"}       holder of _trickery_lock               *)
(*   pc[t] \in {"idle", "want", "in"} where thread t's extraction stands    *)
(*                                                                         *)
(* A thread that wants the lock while another holds it simply is not        *)
(* enabled (it blocks); set_trickery_enabled is one step because nothing    *)
(* can be observed between its acquire and its release.                     *)
(* NoRecheck = TRUE is the design WITHOUT the re-check under the lock       *)
(* (kept to show that the property below is not vacuous: TLC finds the      *)
(* lost update in it).                                                      *)
(* History `acts` records every step; an extraction's record carries the    *)
(* implementation the specification says it used.                           *)
(***************************************************************************)
EXTENDS Naturals, Sequences, TLC, Json

CONSTANTS Thr, MaxSteps, NoRecheck
VARIABLES mode, lock, pc, acts
vars == <<mode, lock, pc, acts>>
Init == mode = "none" /\ lock = "free" /\ pc = [t \in Thr |-> "idle"] /\ acts = <<>>
Rec(t, a, v, used) == Len(acts) < MaxSteps /\ acts' = Append(acts, [t |-> t, a |-> a, v |-> v, used |-> used])

Set(t, v) == /\ pc[t] = "idle" /\ lock = "free" /\ mode' = v /\ UNCHANGED <<lock, pc>> /\ Rec(t, "set", v, "-")
\* the lock-free check: with a setting in place the extraction uses it at once
Begin(t) == /\ pc[t] = "idle"
            /\ IF mode # "none" THEN UNCHANGED <<mode, lock, pc>> /\ Rec(t, "extract", "-", mode)
               ELSE pc' = [pc EXCEPT ![t] = "want"] /\ UNCHANGED <<mode, lock>> /\ Rec(t, "begin", "-", "-")
Acquire(t) == /\ pc[t] = "want" /\ lock = "free" /\ lock' = t /\ pc' = [pc EXCEPT ![t] = "in"] /\ UNCHANGED mode
              /\ Rec(t, "acquire", "-", "-")
\* under the lock: a setting made meanwhile wins; otherwise the self-test runs (it succeeds on CPython) and is cached
Finish(t) == /\ pc[t] = "in"
             /\ LET used == IF mode # "none" /\ ~NoRecheck THEN mode ELSE "on" IN
                /\ mode' = used /\ lock' = "free" /\ pc' = [pc EXCEPT ![t] = "idle"] /\ Rec(t, "finish", "-", used)
Next == \E t \in Thr : Begin(t) \/ Acquire(t) \/ Finish(t) \/ (\E v \in {"none", "on", "off"} : Set(t, v))
Spec == Init /\ [][Next]_vars
View == <<mode, lock, pc>>

TypeOK == /\ mode \in {"none", "on", "off"} /\ lock \in Thr \cup {"free"}
          /\ \A t \in Thr : pc[t] \in {"idle", "want", "in"}
LockDiscipline == /\ \A t \in Thr : (pc[t] = "in") <=> (lock = t)
\* set_trickery_enabled(True/False) takes effect for the subsequent extractions on ANY thread; None restores auto-detection:
\* an extraction uses the most recent setting made before it decided (its own auto-detection verdict if that was None)
RECURSIVE LastSet(_)
LastSet(k) == IF k = 0 THEN "none" ELSE IF acts[k].a = "set" THEN acts[k].v ELSE LastSet(k - 1)
SetTakesEffect == \A k \in 1..Len(acts) : acts[k].a \in {"extract", "finish"} =>
                     acts[k].used = (IF LastSet(k - 1) = "none" THEN "on" ELSE LastSet(k - 1))
\* an explicit setting is only ever replaced by another call of set_trickery_enabled, never by the self-test
ExplicitSettingSurvives == [][(mode # "none" /\ mode' # mode) => acts'[Len(acts')].a = "set"]_vars
Emit == (Len(acts) = MaxSteps) => PrintT(<<"EMIT", ToJson([acts |-> acts])>>)
=============================================================================
