---------------------------- MODULE CodeDispatch ----------------------------
(***************************************************************************)
(* M9: registries keyed by code-object IDENTITY (get_code tower and        *)
(* nested-name resolution, code_dispatch, IdentityDict, customize).        *)
(*                                                                         *)
(* One behaviour = one scenario, picked in Init:                            *)
(*  "tower"     a wrapper tower over a base function; Resolve must be the   *)
(*              base's code                                                 *)
(*  "nest"      a nesting of functions/classes and a name path              *)
(*  "customize" one combination of customize options                        *)
(*  "registry"  a sequence of Register / Dispatch operations over code ids  *)
(*              of which two are EQUAL but not identical                    *)
(*  "idict"     a sequence of IdentityDict operations over three keys of    *)
(*              which two are equal but not identical                       *)
(* The static scenarios are printed at once; the dynamic ones grow a        *)
(* history `ops` of operations and the result the model predicts for each.  *)
(***************************************************************************)
EXTENDS Naturals, Sequences, FiniteSets, TLC, Json

CONSTANTS MaxTower, MaxOps

\* "wrapobj": a decorator written as a CLASS -- an instance with a Python-level __call__ that carries __wrapped__
\* (functools.update_wrapper(self, fn)); like every layer it resolves to what it wraps
Layers == {"partial", "wraps", "method", "wrapobj"}
Tops == {"none", "classmethod", "staticmethod"}
RECURSIVE SeqsUpTo(_, _)
SeqsUpTo(S, n) == IF n = 0 THEN {<<>>}
                  ELSE LET shorter == SeqsUpTo(S, n - 1) IN
                       shorter \cup {Append(s, a) : s \in {t \in shorter : Len(t) = n - 1}, a \in S}

\* ---- nestings: a tree of named definitions; a path of names selects one
\* node = [kind, name, kids]; kinds fn / cls; names unique per scope, but the SAME name may occur in other scopes
Leaf(k, n) == [kind |-> k, name |-> n, kids |-> <<>>]
Nestings == {
  << [kind |-> "fn", name |-> "a", kids |-> << Leaf("fn", "x"), Leaf("fn", "y") >>],
     [kind |-> "fn", name |-> "b", kids |-> << Leaf("fn", "y"), Leaf("fn", "x") >>] >>,
  << [kind |-> "cls", name |-> "C", kids |-> << Leaf("fn", "m"), [kind |-> "cls", name |-> "D", kids |-> << Leaf("fn", "m") >>] >>],
     Leaf("fn", "m") >>,
  << [kind |-> "fn", name |-> "f", kids |-> << [kind |-> "cls", name |-> "K", kids |-> << [kind |-> "fn", name |-> "f", kids |-> << Leaf("fn", "f") >>] >>] >>] >>
}
RECURSIVE Paths(_, _)
\* all name paths into a forest (each ends at a function)
Paths(forest, prefix) ==
  UNION {LET n == forest[i]  p == Append(prefix, n.name) IN
         (IF n.kind = "fn" THEN {p} ELSE {}) \cup Paths(n.kids, p) : i \in 1..Len(forest)}
\* reference resolution: follow the names scope by scope; the result identifies the definition by its full path
ResolvePath(path) == path

\* ---- customize: the documented effect of each option on frames running the target
CustomizeEffect(hide, hideLine, prune, elab) ==
  [hide |-> hide, hide_line |-> hideLine,
   rest |-> IF elab = "replace" THEN "replaced" ELSE IF prune THEN "pruned" ELSE "kept"]

\* ---- registry: code ids 1, 2 are equal-but-distinct (same source compiled twice), 3 is different
CodeIds == {1, 2, 3}
Handlers == {"h1", "h2"}
\* ---- IdentityDict: keys 1, 2 are equal-but-distinct, 3 is different; values 10, 20
Keys == {1, 2, 3}
Vals == {10, 20}
DictOps == {"set", "get", "del", "pop", "popd", "popitem", "setdefault", "clear", "len", "contains"}

VARIABLES mode, scen, reg, dict, ops
vars == <<mode, scen, reg, dict, ops>>

Init == /\ reg = <<>> /\ dict = <<>> /\ ops = <<>>
        /\ \/ /\ mode = "tower"
              /\ scen \in {[layers |-> l, top |-> t] : l \in SeqsUpTo(Layers, MaxTower), t \in Tops}
           \/ /\ mode = "nest"
              /\ scen \in UNION {{[nesting |-> n, path |-> p] : p \in Paths(n, <<>>)} : n \in Nestings}
           \/ /\ mode = "customize"
              \* then: a SECOND customize() of the same target that asks for nothing, in either form -- a registration like
              \* any other, so it replaces the first (the latest registration wins)
              /\ scen \in {[hide |-> h, hide_line |-> hl, prune |-> p, elab |-> e, form |-> f, then |-> t] :
                             h \in BOOLEAN, hl \in BOOLEAN, p \in BOOLEAN, e \in {"none", "returns_none", "replace"},
                             f \in {"direct", "decorator"}, t \in {"none", "reset_direct", "reset_decorator"}}
           \/ mode = "registry" /\ scen = [x |-> 0]
           \/ mode = "idict" /\ scen = [x |-> 0]

\* registry as a function from code IDENTITY to handler; reg is kept as a sequence of <<id, handler>> (unique ids)
RegLookup(id) == IF \E i \in 1..Len(reg) : reg[i][1] = id
                 THEN (CHOOSE i \in 1..Len(reg) : reg[i][1] = id)
                 ELSE 0
Register(id, h) ==
  /\ mode = "registry" /\ Len(ops) < MaxOps
  /\ reg' = IF RegLookup(id) = 0 THEN Append(reg, <<id, h>>) ELSE [reg EXCEPT ![RegLookup(id)] = <<id, h>>]
  /\ ops' = Append(ops, [op |-> "register", k |-> id, v |-> h, res |-> "ok"])
  /\ UNCHANGED <<mode, scen, dict>>
Dispatch(id) ==
  /\ mode = "registry" /\ Len(ops) < MaxOps
  /\ ops' = Append(ops, [op |-> "dispatch", k |-> id, v |-> "-",
                         res |-> IF RegLookup(id) = 0 THEN "default" ELSE reg[RegLookup(id)][2]])
  /\ UNCHANGED <<mode, scen, reg, dict>>

\* IdentityDict against an insertion-ordered association list keyed by identity
DLookup(k) == IF \E i \in 1..Len(dict) : dict[i][1] = k THEN (CHOOSE i \in 1..Len(dict) : dict[i][1] = k) ELSE 0
DRemove(i) == SubSeq(dict, 1, i - 1) \o SubSeq(dict, i + 1, Len(dict))
Rec(o, k, v, r) == ops' = Append(ops, [op |-> o, k |-> k, v |-> v, res |-> r])
DictOp(o, k, v) ==
  /\ mode = "idict" /\ Len(ops) < MaxOps
  /\ LET i == DLookup(k) IN
     CASE o = "set" -> /\ dict' = IF i = 0 THEN Append(dict, <<k, v>>) ELSE [dict EXCEPT ![i] = <<k, v>>]
                       /\ Rec(o, k, v, "ok")
       [] o = "get" -> dict' = dict /\ Rec(o, k, 0, IF i = 0 THEN "KeyError" ELSE dict[i][2])
       [] o = "del" -> IF i = 0 THEN dict' = dict /\ Rec(o, k, 0, "KeyError") ELSE dict' = DRemove(i) /\ Rec(o, k, 0, "ok")
       [] o = "pop" -> IF i = 0 THEN dict' = dict /\ Rec(o, k, 0, "KeyError") ELSE dict' = DRemove(i) /\ Rec(o, k, 0, dict[i][2])
       [] o = "popd" -> IF i = 0 THEN dict' = dict /\ Rec(o, k, v, v) ELSE dict' = DRemove(i) /\ Rec(o, k, v, dict[i][2])
       [] o = "popitem" -> IF dict = <<>> THEN dict' = dict /\ Rec(o, 0, 0, "KeyError")
                           ELSE dict' = DRemove(Len(dict)) /\ Rec(o, 0, 0, dict[Len(dict)])
       [] o = "setdefault" -> IF i = 0 THEN dict' = Append(dict, <<k, v>>) /\ Rec(o, k, v, v)
                              ELSE dict' = dict /\ Rec(o, k, v, dict[i][2])
       [] o = "clear" -> dict' = <<>> /\ Rec(o, 0, 0, "ok")
       [] o = "len" -> dict' = dict /\ Rec(o, 0, 0, Len(dict))
       [] o = "contains" -> dict' = dict /\ Rec(o, k, 0, i # 0)
  /\ UNCHANGED <<mode, scen, reg>>

Next == \/ \E id \in CodeIds, h \in Handlers : Register(id, h)
        \/ \E id \in CodeIds : Dispatch(id)
        \/ \E o \in {"set", "popd", "setdefault"}, k \in Keys, v \in Vals : DictOp(o, k, v)
        \/ \E o \in {"get", "del", "pop", "contains"}, k \in Keys : DictOp(o, k, 10)
        \/ \E o \in {"popitem", "clear", "len"} : DictOp(o, 1, 10)
Spec == Init /\ [][Next]_vars

---------------------------------------------------------------------------
\* exactly-that-code: dispatch never returns a handler registered for another identity, latest registration wins
DispatchExact == \A j \in 1..Len(ops) : ops[j].op = "dispatch" =>
   LET regs == {i \in 1..(j - 1) : ops[i].op = "register" /\ ops[i].k = ops[j].k} IN
   IF regs = {} THEN ops[j].res = "default"
   ELSE ops[j].res = ops[CHOOSE i \in regs : \A i2 \in regs : i2 <= i].v
\* identity keys stay unique, insertion order kept
DictWellFormed == \A i, j \in 1..Len(dict) : i # j => dict[i][1] # dict[j][1]
RegWellFormed == \A i, j \in 1..Len(reg) : i # j => reg[i][1] # reg[j][1]

Export == [mode |-> mode, scen |-> scen, ops |-> ops, dict |-> dict,
           effect |-> IF mode = "customize"
                      THEN (IF scen.then = "none" THEN CustomizeEffect(scen.hide, scen.hide_line, scen.prune, scen.elab)
                            ELSE CustomizeEffect(FALSE, FALSE, FALSE, "none"))
                      ELSE [hide |-> FALSE, hide_line |-> FALSE, rest |-> "-"]]
Emit == (mode \in {"tower", "nest", "customize"} \/ Len(ops) = MaxOps) => PrintT(<<"EMIT", ToJson(Export)>>)
=============================================================================
