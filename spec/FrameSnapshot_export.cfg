SPECIFICATION Spec
CONSTANTS
  MaxAttempts = 10
  MaxIter = 3
  CheckReadAtomic = TRUE
  HeaderGuard = TRUE
  HD = 1
INVARIANT NoCrash
INVARIANT NoUseAfterFree
INVARIANT SnapshotSingleInstant
CONSTRAINT Emit
CHECK_DEADLOCK FALSE
