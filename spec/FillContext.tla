---------------------------- MODULE FillContext ----------------------------
(***************************************************************************)
(* M2: stackscope._extract.fill_context -- elaborate, unwrap, replace,      *)
(* re-elaborate until a steady state, PRUNE, the 100-step guard -- together *)
(* with the contextlib glue's two ways of unwrapping a generator-based      *)
(* manager (through its inner_stack, or through extract_outermost when the  *)
(* manager is exiting).                                                     *)
(*                                                                         *)
(* Hook tables are GIVEN (JSON, written by the harness: exhaustive over     *)
(* small chains, plus seeded random ones); TLC runs the loop on each table  *)
(* set, checks the call-pattern properties on the history, and prints the   *)
(* terminal state for the replay driver.                                    *)
(*                                                                         *)
(* Managers are ids 1..N.  kind[m] \in {"plain", "gcm"};                    *)
(*  E[m]  effect of elaborate_context on a plain manager:                   *)
(*        "none" | "desc" | "children" | "inner" | "obj" (then Eobj[m] is   *)
(*        the manager it puts into context.obj)                             *)
(*  U[m]  result of unwrap_context (plain) / of the registered              *)
(*        unwrap_context_generator (gcm; "unreg" = no hook registered):     *)
(*        "none" | "prune" | "next" (then Unext[m]) | "unreg"               *)
(***************************************************************************)
EXTENDS Naturals, Sequences, FiniteSets, TLC, Json, IOUtils

CONSTANTS MaxLoops
Given == JsonDeserialize(IOEnv.FC_GIVEN)

VARIABLES tid,
          ctx,      \* [obj, inner, children, hide, desc]   inner: 0 = None, m = the Stack extracted from gcm m's generator
          calls,    \* history: Seq of [h, m, inner, children]  (hook name, manager it was called with, ctx as it saw it)
          iter, pc, err
vars == <<tid, ctx, calls, iter, pc, err>>

G == Given[tid]
Kind(m) == G.kind[m]
Exiting == G.exiting

Init == /\ tid \in 1..Len(Given)
        /\ ctx = [obj |-> Given[tid].start, inner |-> 0, children |-> 0, hide |-> FALSE, desc |-> 0]
        /\ calls = <<>> /\ iter = 0 /\ pc = "elab" /\ err = FALSE

Snap(h, m) == [h |-> h, m |-> m, inner |-> ctx.inner, children |-> ctx.children]

(* elaborate_context(context.obj, context) *)
Elaborate ==
  /\ pc = "elab" /\ iter < MaxLoops
  /\ LET m == ctx.obj IN
     /\ calls' = Append(calls, Snap("E", m))
     /\ ctx' = IF Kind(m) = "gcm"
               THEN \* glue: inner_stack = extract_child(mgr.gen) unless exiting; description always
                    [ctx EXCEPT !.inner = IF Exiting THEN @ ELSE m, !.desc = m]
               ELSE CASE G.E[m] = "none" -> ctx
                      [] G.E[m] = "desc" -> [ctx EXCEPT !.desc = m]
                      [] G.E[m] = "children" -> [ctx EXCEPT !.children = m]
                      [] G.E[m] = "inner" -> [ctx EXCEPT !.inner = m]
                      [] G.E[m] = "obj" -> [ctx EXCEPT !.obj = G.Eobj[m]]
  /\ pc' = "unwrap" /\ UNCHANGED <<tid, iter, err>>

(* inner_mgr = unwrap_context(context.obj, context)  -- note: the obj an elaborate hook may just have replaced *)
UnwrapResult(m) == IF Kind(m) = "gcm" /\ G.U[m] = "unreg" THEN "none" ELSE G.U[m]
Unwrap ==
  /\ pc = "unwrap"
  /\ LET m == ctx.obj  r == UnwrapResult(m) IN
     /\ calls' = Append(calls, Snap(IF Kind(m) = "gcm" THEN (IF G.U[m] = "unreg" THEN "U" ELSE IF ctx.inner # 0 THEN "UG-inner" ELSE "UG-outermost") ELSE "U", m))
     /\ CASE r = "none" -> pc' = "done" /\ ctx' = ctx /\ iter' = iter
          [] r = "prune" -> pc' = "done" /\ ctx' = [ctx EXCEPT !.hide = TRUE] /\ iter' = iter
          [] r = "next" -> /\ ctx' = [ctx EXCEPT !.obj = G.Unext[m], !.inner = 0, !.children = 0]
                           /\ iter' = iter + 1
                           /\ pc' = IF iter + 1 < MaxLoops THEN "elab" ELSE "guard"
  /\ UNCHANGED <<tid, err>>

(* more than MaxLoops steps: one more unwrap_context call (for the message), then RuntimeError *)
GuardTrip ==
  /\ pc = "guard"
  /\ calls' = Append(calls, Snap("U-msg", ctx.obj))
  /\ err' = TRUE /\ pc' = "done" /\ UNCHANGED <<tid, ctx, iter>>

Next == Elaborate \/ Unwrap \/ GuardTrip
Spec == Init /\ [][Next]_vars

---------------------------------------------------------------------------
IsE(c) == c.h = "E"
IsU(c) == c.h \in {"U", "UG-inner", "UG-outermost"}
\* elaborate and unwrap strictly alternate, starting with elaborate on the original manager
CallPattern == \A i \in 1..Len(calls) : calls[i].h # "U-msg" => ((i % 2 = 1) <=> IsE(calls[i]))
\* every re-elaboration sees a context whose inner_stack and children have been reset
ResetBeforeReelab == \A i \in 2..Len(calls) : IsE(calls[i]) => (calls[i].inner = 0 /\ calls[i].children = 0)
\* PRUNE hides and stops; None stops
PruneStops == (pc = "done" /\ ~err /\ Len(calls) >= 2) =>
                 LET u == calls[Len(calls)] IN IsU(u) /\ (ctx.hide <=> UnwrapResult(u.m) = "prune")
\* the guard: never more than MaxLoops replacements; tripping means an error, not a hang
GuardBound == iter <= MaxLoops /\ (err => iter = MaxLoops)
Terminates == <>(pc = "done")

Export == [tid |-> tid, obj |-> ctx.obj, inner |-> ctx.inner, children |-> ctx.children, hide |-> ctx.hide,
           desc |-> ctx.desc, err |-> err, calls |-> [i \in 1..Len(calls) |-> <<calls[i].h, calls[i].m>>]]
Emit == (pc = "done") => PrintT(<<"EMIT", ToJson(Export)>>)
=============================================================================
