------------------------------- MODULE Format -------------------------------
(***************************************************************************)
(* M10: the renderers of stackscope._types as pure functions over abstract  *)
(* Stack trees (GIVEN as JSON by the harness):                              *)
(*   Fmt(stack, opts)      the lines of format(): each line is a sequence   *)
(*                         of prefix MARKERS followed by a payload          *)
(*   Entries(stack, opts)  the entries of as_stdlib_summary() (C19)         *)
(* composed by the same rules as the code -- including the test             *)
(* `line.startswith(child indicator)` on already-prefixed lines, the        *)
(* blank-line rule for populated child task stacks, and the `[1:]` header    *)
(* drop of inner stacks.                                                    *)
(*                                                                         *)
(* Tree encoding (uniform records so that the operators can recurse):       *)
(*  stack  [t, root, frames, leaf, error]   t="stack" | "none"; error = number of error text lines (0: none) *)
(*  frame  [id, hide, line, ctxs]           line: has a source line to show *)
(*  ctx    [id, exiting, hide, sl, inner, children]   sl: has start_line     *)
(*  child  [t, ctx, st]                     t="ctx": a child Context; t="stack": a child task Stack *)
(***************************************************************************)
EXTENDS Naturals, Sequences, FiniteSets, TLC, Json, IOUtils

Given == JsonDeserialize(IOEnv.FM_GIVEN)
VARIABLES tid, opt, done
vars == <<tid, opt, done>>

Opts == [ctx : BOOLEAN, hidden : BOOLEAN]       \* show_contexts, show_hidden_frames (ascii_only is a relabelling)

L(m, p) == [m |-> m, p |-> p]
Pre(tok, line) == [m |-> <<tok>> \o line.m, p |-> line.p]
Last(s) == s[Len(s)]
RECURSIVE Cat(_)
Cat(ss) == IF ss = <<>> THEN <<>> ELSE Head(ss) \o Cat(Tail(ss))

RECURSIVE FmtStack(_, _), FmtFrame(_, _), FmtCtx(_, _), FmtChildren(_, _, _, _)

\* Stack._format: header, frames (first line "SF", the others "CF"), leaf, error block
FmtStack(s, o) ==
  << L(<<>>, <<"hdr">>) >>
  \o Cat([i \in 1..Len(s.frames) |->
            IF s.frames[i].hide /\ ~o.hidden THEN <<>>
            ELSE LET fl == FmtFrame(s.frames[i], o) IN
                 [j \in 1..Len(fl) |-> Pre(IF j = 1 THEN "SF" ELSE "CF", fl[j])]])
  \o (IF s.leaf THEN << L(<<"LEAF">>, <<"leaf">>) >> ELSE <<>>)
  \o (IF s.error > 0 THEN << L(<<"ERR">>, <<"errhdr">>) >> \o [k \in 1..s.error |-> L(<<"ERR">>, <<"err", k>>)] ELSE <<>>)

\* Frame._format
FmtFrame(f, o) ==
  << L(<<>>, <<"frame", f.id>>) >>
  \o (IF o.ctx
      THEN Cat([i \in 1..Len(f.ctxs) |->
                  LET cl == FmtCtx(f.ctxs[i], o) IN
                  [j \in 1..Len(cl) |->
                     IF j = 1 THEN Pre("SC", cl[j])
                     ELSE IF cl[j].m # <<>> /\ cl[j].m[1] = "SCH" THEN Pre("SCC", cl[j])      \* line.startswith(child indicator)
                     ELSE Pre("CC", cl[j])]])
      ELSE <<>>)
  \o (IF ~(f.ctxs # <<>> /\ Last(f.ctxs).exiting) /\ f.line THEN << L(<<"COD">>, <<"code", f.id>>) >> ELSE <<>>)

\* Context._format
FmtCtx(c, o) ==
  IF c.hide /\ ~o.hidden THEN <<>>
  ELSE << L(<<>>, <<"ctx", c.id>>) >>
       \o (IF c.inner.t = "stack" THEN Tail(FmtStack(c.inner, o)) ELSE <<>>)
       \o FmtChildren(c.children, 1, FALSE, o)

\* the loop over children, carrying did_blank
FmtChildren(ch, i, didBlank, o) ==
  IF i > Len(ch) THEN <<>>
  ELSE LET x == ch[i]
           isStack == x.t = "stack"
           base == IF isStack
                   THEN << L(<<>>, <<"childroot">>) >> \o Tail(FmtStack(x.st, o))
                   ELSE FmtCtx(x.ctx, o)
           populated == isStack /\ x.st.frames # <<>>
           pre == IF populated /\ ~didBlank THEN << L(<<"CCH">>, <<"blank">>) >> ELSE <<>>
           sub == IF populated THEN Append(base, L(<<>>, <<"blank">>)) ELSE base
           marked == [j \in 1..Len(sub) |-> Pre(IF j = 1 THEN "SCH" ELSE "CCH", sub[j])]
           nb == sub # <<>> /\ Last(sub).p = <<"blank">>
       IN pre \o marked \o FmtChildren(ch, i + 1, nb, o)

---------------------------------------------------------------------------
(* C19: as_stdlib_summary *)
RECURSIVE Entries(_, _, _), CtxEntries(_, _, _, _)
\* Stack._frame_summaries(show_contexts, show_hidden): one entry per visible frame, preceded by its context entries
Entries(s, sc, sh) ==
  Cat([i \in 1..Len(s.frames) |->
         LET f == s.frames[i] IN
         IF f.hide /\ ~sh THEN <<>>
         ELSE IF ~sc THEN << <<"frame", f.id>> >>
         ELSE Cat([j \in 1..Len(f.ctxs) |-> CtxEntries(f.ctxs[j], f.id, sh, FALSE)])
              \o (IF f.ctxs # <<>> /\ Last(f.ctxs).exiting THEN <<>> ELSE << <<"frame", f.id>> >>)])
\* Context._frame_summaries: the context's own entry (at its with-line, or the frame's line), its inner stack with
\* contexts, then its child CONTEXTS (child task stacks are not part of a flat summary)
CtxEntries(c, fid, sh, asChild) ==
  IF c.hide /\ ~sh THEN <<>>
  ELSE << <<IF asChild THEN "childctx" ELSE "ctx", c.id, fid, c.sl>> >>
       \o (IF c.inner.t = "stack" THEN Entries(c.inner, TRUE, sh) ELSE <<>>)
       \o Cat([k \in 1..Len(c.children) |->
                 IF c.children[k].t = "ctx" THEN CtxEntries(c.children[k].ctx, fid, sh, TRUE) ELSE <<>>])

---------------------------------------------------------------------------
Init == tid \in 1..Len(Given) /\ opt \in Opts /\ done = FALSE
Step == ~done /\ done' = TRUE /\ UNCHANGED <<tid, opt>>
Spec == Init /\ [][Step]_vars

T == Given[tid]
Lines == FmtStack(T, opt)
\* hidden frames and contexts are printed iff show_hidden_frames; show_contexts=False prints exactly the frame series
TopVisible == SelectSeq(T.frames, LAMBDA f : ~f.hide \/ opt.hidden)
NoContextsIsFrameSeries ==
  ~opt.ctx => LET body == SelectSeq(Lines, LAMBDA l : l.p[1] \in {"frame", "code"}) IN
              /\ \A l \in {Lines[i] : i \in 1..Len(Lines)} : l.p[1] \in {"hdr", "frame", "code", "leaf", "errhdr", "err"}
              /\ [i \in 1..Len(SelectSeq(body, LAMBDA l : l.p[1] = "frame")) |-> SelectSeq(body, LAMBDA l : l.p[1] = "frame")[i].p[2]]
                   = [i \in 1..Len(TopVisible) |-> TopVisible[i].id]
\* every line starts (after the header) with a stack-level marker: the text is a sequence of well-prefixed single lines
WellPrefixed == \A i \in 2..Len(Lines) : Lines[i].m # <<>> /\ Lines[i].m[1] \in {"SF", "CF", "LEAF", "ERR"}
\* summary: without contexts exactly the visible frame series
SummaryPlain == Entries(T, FALSE, opt.hidden) = [i \in 1..Len(TopVisible) |-> <<"frame", TopVisible[i].id>>]

Emit == done => PrintT(<<"EMIT", ToJson([tid |-> tid, ctx |-> opt.ctx, hidden |-> opt.hidden,
                                        lines |-> [i \in 1..Len(Lines) |-> [m |-> Lines[i].m, p |-> Lines[i].p]],
                                        entries |-> Entries(T, opt.ctx, opt.hidden)])>>)
=============================================================================
