------------------------------- MODULE Portal -------------------------------
(***************************************************************************)
(* M8b (greenback portals) for C15, second sentence: "With greenback, the  *)
(* stack of a task continues through each await_ bridge from synchronous   *)
(* frames into the awaited coroutine's frames, for any number of           *)
(* alternations, with the bridging internals hidden."                      *)
(*                                                                         *)
(* LOGICAL state: the user call stack of one Trio task, stk, a sequence of *)
(* frames of kind "a" (async def) or "s" (def); each records the EDGE by   *)
(* which it was called and the with-block the caller holds around the call:*)
(*   a -> a  "await"   native await                                        *)
(*   a -> a  "wpr"     await greenback.with_portal_run(fn)                 *)
(*   a -> s  "call"    plain call                                          *)
(*   a -> s  "wprs"    await greenback.with_portal_run_sync(fn)            *)
(*   s -> s  "call"                                                        *)
(*   s -> a  "await_"  greenback.await_(fn())    (needs an active portal)  *)
(*   s -> a  "await_o" greenback.await_(obj) with obj a NON-coroutine       *)
(*                     awaitable wrapping fn(): greenback then drives the  *)
(*                     coroutine adapt_awaitable(obj)  (frame ADAPT)       *)
(* plus ens: the task called greenback.ensure_portal() (portal for the     *)
(* rest of its life, wrapping the task's own coroutine).  A "wpr"/"wprs"   *)
(* edge CREATES a portal only if none is active at the time of the call    *)
(* (greenback then just calls through).                                    *)
(*                                                                         *)
(* PHYSICAL structure (how greenback arranges coroutines, generators and   *)
(* one child greenlet), derived from the logical state for the two ways    *)
(* of looking at it:                                                       *)
(*   park: the task is suspended in a Trio trap; observed from outside     *)
(*   run : the innermost user frame calls extract(task.coro) itself        *)
(* Phys is the sequence of frames in logical order, internals included:    *)
(*   GS   greenback_shim     (async wrapper of an ensure_portal task)      *)
(*   WPR  with_portal_run    WPRS with_portal_run_sync                     *)
(*   SH   _greenback_shim    SHS  _greenback_shim_sync   (portal generators)*)
(*   TR   trampoline         (outermost frame of the child greenlet)       *)
(*   SEND outcome.Value.send (present only while the coroutine it sends    *)
(*        into is RUNNING, i.e. on the greenlet's C stack)                 *)
(*   AW   greenback.await_   TRAP trio's wait_task_rescheduled             *)
(*   U(i) user frame i                                                     *)
(* and Link(p) says how frame p is reachable from frame p-1:               *)
(*   "await"  p-1 is a suspended coroutine whose cr_await leads to p       *)
(*   "fback"  p-1 and p are adjacent on one greenlet's frame chain         *)
(*   "cross"  run mode: the chain continues in the parent greenlet         *)
(*            (unwrap_stackslice follows greenlet parents, C04)            *)
(*   "glue"   no interpreter link: only an elaborate_frame hook for the    *)
(*            code of p-1 can continue (SH/SHS -> child greenlet,          *)
(*            TR -> orig_coro, AW -> coro)                                 *)
(* Walk is what stackscope's traversal yields: the prefix of Phys up to    *)
(* the first "glue" link for which no hook is registered.                  *)
(*                                                                         *)
(* FixedF17 = FALSE is the tree before the fix of finding F17: no hook for *)
(* _greenback_shim_sync, so a task inside with_portal_run_sync showed      *)
(* nothing inward of that generator.                                       *)
(***************************************************************************)
EXTENDS Naturals, Sequences, FiniteSets, TLC, Json

CONSTANTS MaxDepth, MaxSteps, FixedF17, WithCms

VARIABLES stk, ens, acts, obs, steps
vars == <<stk, ens, acts, obs, steps>>

RECURSIVE Cat(_)
Cat(ss) == IF ss = <<>> THEN <<>> ELSE Head(ss) \o Cat(Tail(ss))
Top(s) == s[Len(s)]
F(fn) == [fn |-> fn, u |-> 0]
PortalActive(s, e) == e \/ \E i \in 1..Len(s) : s[i].creates

---------------------------------------------------------------------------
(* physical structure *)
PreOf(f) == CASE f.edge = "wpr"    -> IF f.creates THEN <<F("WPR"), F("SH"), F("TR"), F("SEND")>> ELSE <<F("WPR")>>
              [] f.edge = "wprs"   -> IF f.creates THEN <<F("WPRS"), F("SHS")>> ELSE <<F("WPRS")>>
              [] f.edge = "await_" -> <<F("AW"), F("SEND")>>
              [] f.edge = "await_o" -> <<F("AW"), F("SEND"), F("ADAPT")>>
              \* `with greenback.async_context(mgr):` in a sync frame -- the callee runs inside mgr.__aenter__ (actx_en) or
              \* mgr.__aexit__ (actx_ex): greenback's adapter method, the await_ bridge, then the manager's own method
              [] f.edge = "actx_en" -> <<F("ACE"), F("AW"), F("SEND"), F("MEN")>>
              [] f.edge = "actx_ex" -> <<F("ACX"), F("AW"), F("SEND"), F("MEX")>>
              [] OTHER             -> <<>>
FlatRaw(s, e, park) ==
  (IF e THEN <<F("GS"), F("SH"), F("TR"), F("SEND")>> ELSE <<>>)
  \o Cat([i \in 1..Len(s) |-> PreOf(s[i]) \o <<[fn |-> "U", u |-> i]>>])
  \o (IF park THEN (IF Top(s).kind = "s" THEN <<F("AW")>> ELSE <<>>) \o <<F("TRAP")>> ELSE <<>>)
\* a SEND frame exists only while the coroutine it sends into is running: in park mode that is the case iff the
\* greenlet is suspended further in, i.e. there is a later await_
Phys(s, e, park) ==
  LET raw == FlatRaw(s, e, park)
      keep(p) == raw[p].fn # "SEND" \/ ~park \/ \E q \in (p + 1)..Len(raw) : raw[q].fn = "AW"
      idx == {p \in 1..Len(raw) : keep(p)}
      RECURSIVE Sel(_)
      Sel(p) == IF p > Len(raw) THEN <<>> ELSE (IF p \in idx THEN <<raw[p]>> ELSE <<>>) \o Sel(p + 1)
  IN Sel(1)

Idx(P, fns) == {p \in 1..Len(P) : P[p].fn \in fns}
Min(S) == CHOOSE x \in S : \A y \in S : x <= y
Max(S) == CHOOSE x \in S : \A y \in S : x >= y
\* first frame of the child greenlet (0: no portal)
GStart(P) == IF Idx(P, {"TR"}) # {} THEN Min(Idx(P, {"TR"}))
             ELSE IF Idx(P, {"SHS"}) # {} THEN Min(Idx(P, {"SHS"})) + 1 ELSE 0
\* park mode: the frame at which the child greenlet is suspended (its gr_frame)
Boundary(P) == IF Idx(P, {"AW"}) # {} THEN Max(Idx(P, {"AW"})) ELSE GStart(P)
Link(P, park, p) ==
  LET g == GStart(P) b == Boundary(P) IN
  IF p = 1 THEN "start"
  ELSE IF ~park THEN (IF g # 0 /\ p = g THEN "cross" ELSE "fback")
  ELSE IF g = 0 \/ p < g THEN "await"
  ELSE IF p = g THEN "glue"
  ELSE IF p <= b THEN "fback"
  ELSE IF p = b + 1 THEN "glue"
  ELSE "await"

HasHook(fn) == fn \in {"SH", "TR", "AW"} \/ (fn = "SHS" /\ FixedF17)
Passable(P, park, p) == Link(P, park, p) # "glue" \/ HasHook(P[p - 1].fn)
WalkLen(P, park) == IF \A p \in 2..Len(P) : Passable(P, park, p) THEN Len(P)
                    ELSE Min({p \in 2..Len(P) : ~Passable(P, park, p)}) - 1
\* "any": the property does not say (portal entry points GS / WPR / WPRS and the adapt_awaitable coroutine are reported
\* visible by the current code; hiding them would not break C15, so the replay does not compare their flag)
Hidden(fn) == IF fn \in {"SH", "TR", "SEND", "AW", "TRAP"} \/ (fn = "SHS" /\ FixedF17) THEN "yes"
              ELSE IF fn \in {"GS", "WPR", "WPRS", "ADAPT", "ACE", "ACX"} THEN "any" ELSE "no"
\* the contexts a user frame holds: the with-block around the call of its callee
CtxOf(s, u) == IF u = 0 \/ u >= Len(s) THEN "none" ELSE s[u + 1].cm
Walk(s, e, park) ==
  LET P == Phys(s, e, park) n == WalkLen(P, park) IN
  [p \in 1..n |-> [fn |-> P[p].fn, u |-> P[p].u, hide |-> Hidden(P[p].fn), cm |-> CtxOf(s, P[p].u)]]

CanPark(s, e) == Top(s).kind = "a" \/ PortalActive(s, e)
Observation(s, e) == [inside |-> Walk(s, e, FALSE),
                      outside |-> IF CanPark(s, e) THEN Walk(s, e, TRUE) ELSE <<>>,
                      parked |-> CanPark(s, e)]

---------------------------------------------------------------------------
(* logical transitions *)
Root == [kind |-> "a", edge |-> "root", creates |-> FALSE, cm |-> "none"]
Init == stk = <<Root>> /\ ens = FALSE /\ acts = <<>> /\ obs = <<Observation(<<Root>>, FALSE)>> /\ steps = 0

Edges(s, e) == IF Top(s).kind = "a"
               THEN {<<"a", "await">>, <<"a", "wpr">>, <<"s", "call">>, <<"s", "wprs">>}
               ELSE {<<"s", "call">>} \cup (IF PortalActive(s, e)
                                            THEN {<<"a", "await_">>, <<"a", "await_o">>, <<"a", "actx_en">>, <<"a", "actx_ex">>} ELSE {})
\* with-blocks: an async frame uses `async with M()`, a sync frame `with M()` or, under a portal,
\* `with greenback.async_context(AM())` (whose Context must show the wrapped async manager)
Cms(s, e) == IF ~WithCms THEN {"none"}
             ELSE IF Top(s).kind = "a" THEN {"none", "async"}
             ELSE {"none", "sync"} \cup (IF PortalActive(s, e) THEN {"gb"} ELSE {})

Tick(a, s2, e2) == /\ steps < MaxSteps /\ steps' = steps + 1
                   /\ acts' = Append(acts, a) /\ obs' = Append(obs, Observation(s2, e2))
                   /\ stk' = s2 /\ ens' = e2
Call(ke, cm) ==
  /\ Len(stk) < MaxDepth /\ ke \in Edges(stk, ens)
  \* the with statement of an actx edge IS the call: while its manager is being entered the caller holds no context for
  \* it yet; while it is being exited the caller's context for it is exiting ("gbx")
  /\ cm \in (IF ke[2] = "actx_en" THEN {"none"} ELSE IF ke[2] = "actx_ex" THEN {"gbx"} ELSE Cms(stk, ens))
  /\ LET f == [kind |-> ke[1], edge |-> ke[2], cm |-> cm,
               creates |-> ke[2] \in {"wpr", "wprs"} /\ ~PortalActive(stk, ens)]
     IN Tick([a |-> "call", kind |-> ke[1], edge |-> ke[2], cm |-> cm], Append(stk, f), ens)
Return == /\ Len(stk) > 1
          /\ Tick([a |-> "ret", kind |-> "-", edge |-> "-", cm |-> "-"], SubSeq(stk, 1, Len(stk) - 1), ens)
\* await greenback.ensure_portal() by the innermost frame (a no-op for the structure when a portal is active)
Ensure == /\ Top(stk).kind = "a"
          /\ Tick([a |-> "ensure", kind |-> "-", edge |-> "-", cm |-> "-"], stk, ens \/ ~PortalActive(stk, ens))
Next == (\E ke \in {"a", "s"} \X {"await", "wpr", "call", "wprs", "await_", "await_o", "actx_en", "actx_ex"},
            cm \in {"none", "async", "sync", "gb", "gbx"} : Call(ke, cm))
        \/ Return \/ Ensure
Spec == Init /\ [][Next]_vars
View == <<stk, ens>>

---------------------------------------------------------------------------
(* properties of every reachable logical state *)
UserIdx(w) == LET us == SelectSeq(w, LAMBDA x : x.fn = "U") IN [i \in 1..Len(us) |-> us[i].u]
AllUsers == [i \in 1..Len(stk) |-> i]
\* C15: the walk continues through every bridge: every user frame, in order, from outside and from inside
BridgeContinuesInside == UserIdx(Walk(stk, ens, FALSE)) = AllUsers
BridgeContinuesOutside == CanPark(stk, ens) => UserIdx(Walk(stk, ens, TRUE)) = AllUsers
\* ... with the bridging internals hidden, and no user frame hidden.  GS, WPR and WPRS are the portal's entry points
\* (a task wrapper and two public API functions), not bridging internals: they are reported visible
Internals == {"SH", "SHS", "TR", "SEND", "AW"}
InternalsHidden == \A park \in BOOLEAN : (park => CanPark(stk, ens)) =>
                     \A x \in {Walk(stk, ens, park)[p] : p \in 1..Len(Walk(stk, ens, park))} :
                        (x.fn \in Internals => x.hide = "yes") /\ (x.fn = "U" => x.hide = "no")
\* structural sanity of the physical model
OneGreenlet == Cardinality(Idx(Phys(stk, ens, FALSE), {"TR", "SHS"})) <= 1
PortalIffGreenlet == PortalActive(stk, ens) <=> GStart(Phys(stk, ens, FALSE)) # 0
SyncOnlyInsidePortalWhenParked ==
  CanPark(stk, ens) => LET P == Phys(stk, ens, TRUE) IN
                       \A p \in 1..Len(P) : (P[p].fn = "U" /\ stk[P[p].u].kind = "s") => (GStart(P) # 0 /\ p >= GStart(P))
\* in park mode the last frame is the trap, and everything after the boundary is a suspended await chain of async frames
TrapLast == CanPark(stk, ens) => LET P == Phys(stk, ens, TRUE) IN P[Len(P)].fn = "TRAP"
AwaitChainIsAsync ==
  CanPark(stk, ens) => LET P == Phys(stk, ens, TRUE) IN
                       \A p \in 2..Len(P) : (Link(P, TRUE, p) = "await" /\ P[p - 1].fn = "U") => stk[P[p - 1].u].kind = "a"

Emit == (steps = MaxSteps) => PrintT(<<"EMIT", ToJson([acts |-> acts, obs |-> obs])>>)
=============================================================================
