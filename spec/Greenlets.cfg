\* C15: greenlet forests over 3 greenlets, every parent assignment, call depth <= 2
SPECIFICATION Spec
CONSTANTS
  G = {"g1", "g2", "g3"}
  MaxDepth = 2
  MaxSteps = 12
INVARIANT LiveTree
VIEW View
CHECK_DEADLOCK FALSE
