\* C13: every well-nested call tree of depth <= 2 (thorough: 3) on two threads, every interleaving, 9 steps
SPECIFICATION Spec
CONSTANTS
  Thr = {"t1", "t2"}
  MaxDepth = 2
  MaxSteps = 12
INVARIANT Scoped
INVARIANT IdleIsNone
PROPERTY Isolated
VIEW View
CHECK_DEADLOCK FALSE
