---------------------------- MODULE ThreadUnwrap ----------------------------
(***************************************************************************)
(* M5 (second half): _glue.unwrap_thread against the life cycle of the      *)
(* target thread T and the reuse of its ident by a later thread U.          *)
(*   was_alive = T.is_alive()                                               *)
(*   frame = sys._current_frames().get(T.ident)      (ident -> whoever owns *)
(*                                                    that ident NOW)       *)
(*   if frame is None or not T.is_alive() or not was_alive: return []       *)
(*   return StackSlice(inner=frame)                                         *)
(***************************************************************************)
EXTENDS Naturals, Sequences, TLC, Json

VARIABLES tstate,     \* "unstarted" | "alive" | "finished"
          ustate,     \* U: "none" | "alive" (started after T finished, with T's ident)  | "finished"
          ipc, wasAlive, got, result, acts, t0
vars == <<tstate, ustate, ipc, wasAlive, got, result, acts, t0>>

Init == /\ tstate \in {"unstarted", "alive"} /\ ustate = "none" /\ t0 = tstate
        /\ ipc = "was" /\ wasAlive = FALSE /\ got = "none" /\ result = "-" /\ acts = <<>>
Lab(a) == acts' = Append(acts, a) /\ UNCHANGED t0
IU == UNCHANGED <<ipc, wasAlive, got, result>>
TStart == tstate = "unstarted" /\ tstate' = "alive" /\ UNCHANGED ustate /\ IU /\ Lab("TStart")
TFinish == tstate = "alive" /\ tstate' = "finished" /\ UNCHANGED ustate /\ IU /\ Lab("TFinish")
UStart == tstate = "finished" /\ ustate = "none" /\ ustate' = "alive" /\ UNCHANGED tstate /\ IU /\ Lab("UStart")
UFinish == ustate = "alive" /\ ustate' = "finished" /\ UNCHANGED tstate /\ IU /\ Lab("UFinish")
EU == UNCHANGED <<tstate, ustate>>

IWasAlive == /\ ipc = "was" /\ wasAlive' = (tstate = "alive") /\ ipc' = "get"
             /\ UNCHANGED <<got, result>> /\ EU /\ Lab("IWasAlive")
\* whose frame does the ident map to right now?
IGetFrames == /\ ipc = "get" /\ ipc' = "after"
              /\ got' = IF tstate = "alive" THEN "T" ELSE IF ustate = "alive" THEN "U" ELSE "none"
              /\ UNCHANGED <<wasAlive, result>> /\ EU /\ Lab("IGetFrames")
IAliveAfter == /\ ipc = "after" /\ ipc' = "end"
               /\ result' = IF got = "none" \/ tstate # "alive" \/ ~wasAlive THEN "empty" ELSE got
               /\ UNCHANGED <<wasAlive, got>> /\ EU /\ Lab("IAliveAfter")
Next == TStart \/ TFinish \/ UStart \/ UFinish \/ IWasAlive \/ IGetFrames \/ IAliveAfter
Spec == Init /\ [][Next]_vars

\* every frame reported belongs to the target thread
FramesBelongToThread == result \in {"-", "empty", "T"}
\* a thread that has not started or has finished (before the call began) yields no frames
NotAliveGivesEmpty == (ipc = "end" /\ ~wasAlive) => result = "empty"
Emit == (ipc = "end") => PrintT(<<"EMIT", ToJson([acts |-> acts, result |-> result, t0 |-> t0])>>)
=============================================================================
