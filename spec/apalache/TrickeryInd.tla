----------------------------- MODULE TrickeryInd -----------------------------
(***************************************************************************)
(* Unbounded safety of the mode switch (Trickery.tla without its history    *)
(* variable): an INDUCTIVE invariant, discharged by Apalache for any number *)
(* of steps of three threads.                                               *)
(* Ghost variable lastset: the most recent set_trickery_enabled value       *)
(* ("none" for None or never).  ModeFollowsLastSet is the state form of     *)
(* Trickery!SetTakesEffect: whatever an extraction decides to use is `mode` *)
(* (or "on" when it is "none"), and mode is the last explicit setting, or   *)
(* nothing / the self-test verdict when there is none.                      *)
(*   apalache-mc check --init=Init    --inv=IndInv --length=0 TrickeryInd.tla *)
(*   apalache-mc check --init=IndInit --inv=IndInv --length=1 TrickeryInd.tla *)
(***************************************************************************)
EXTENDS Naturals

Thr == {"t1", "t2", "t3"}
Modes == {"none", "on", "off"}

VARIABLES
  \* @type: Str;
  mode,
  \* @type: Str;
  lock,
  \* @type: Str -> Str;
  pc,
  \* @type: Str;
  lastset

Init == mode = "none" /\ lock = "free" /\ pc = [t \in Thr |-> "idle"] /\ lastset = "none"

Set(t, v) == /\ pc[t] = "idle" /\ lock = "free" /\ mode' = v /\ lastset' = v /\ UNCHANGED <<lock, pc>>
Begin(t) == /\ pc[t] = "idle"
            /\ IF mode # "none" THEN UNCHANGED <<mode, lock, pc, lastset>>
               ELSE pc' = [pc EXCEPT ![t] = "want"] /\ UNCHANGED <<mode, lock, lastset>>
Acquire(t) == /\ pc[t] = "want" /\ lock = "free" /\ lock' = t /\ pc' = [pc EXCEPT ![t] = "in"] /\ UNCHANGED <<mode, lastset>>
Finish(t) == /\ pc[t] = "in"
             /\ mode' = (IF mode # "none" THEN mode ELSE "on")
             /\ lock' = "free" /\ pc' = [pc EXCEPT ![t] = "idle"] /\ UNCHANGED lastset
Next == \E t \in Thr : Begin(t) \/ Acquire(t) \/ Finish(t) \/ (\E v \in Modes : Set(t, v))

TypeOK == /\ mode \in Modes /\ lastset \in Modes /\ lock \in Thr \cup {"free"}
          /\ pc \in [Thr -> {"idle", "want", "in"}]
LockDiscipline == \A t \in Thr : (pc[t] = "in") <=> (lock = t)
ModeFollowsLastSet == IF lastset = "none" THEN mode \in {"none", "on"} ELSE mode = lastset
IndInv == TypeOK /\ LockDiscipline /\ ModeFollowsLastSet
IndInit == IndInv
=============================================================================
