------------------------------ MODULE Chains ------------------------------
(***************************************************************************)
(* M8 (await / yield-from chains) + the built-in unwrap rules of           *)
(* stackscope._glue as a table ("ExtractGlue"): the ground truth for C03   *)
(* and C16.                                                                *)
(*                                                                         *)
(* A chain is a sequence of links, outermost first.  Every link is an      *)
(* object that is suspended on the next one:                               *)
(*   "coro"   native coroutine        (await next)                         *)
(*   "gcoro"  generator-based coroutine (types.coroutine; yield from next)  *)
(*   "gen"    plain generator          (yield from next)                    *)
(*   "agen"   native async generator   (await next inside its body); its   *)
(*            parent drives it through one of the awaitables in AgenVia     *)
(* Between a parent and a child there may be an adapter object without a   *)
(* frame:  "cw"  object whose __await__ returns child.__await__()           *)
(*               (a coroutine_wrapper; child must be a coro)                *)
(*         "ag"  object whose __await__ is a generator function (the child  *)
(*               link is that generator)                                    *)
(* The chain ends in a terminator:                                         *)
(*   "trap"   a bare yield in the last link (gcoro / gen; for an agen: its  *)
(*            own yield) -- frames tell the whole story, leaf None          *)
(*   "iter"   the last link waits on a plain iterator -- that is the leaf   *)
(*   "done"   the root object has run to completion -- no frames            *)
(*   "run"    nothing is suspended: the last link calls a plain function    *)
(*            that extracts the (running) root from inside                  *)
(***************************************************************************)
EXTENDS Naturals, Sequences, FiniteSets, TLC, Json

CONSTANTS MaxLinks

Kinds == {"coro", "gcoro", "gen", "agen"}
AgenVia == {"anext", "asend", "asyncfor", "athrow", "aclose"}
Adapters == {"direct", "cw", "ag"}
Terms == {"trap", "iter", "done", "run"}

\* can a link of kind p wait on (await / yield from) a child of kind c through adapter a?
Awaits(p) == p \in {"coro", "agen"}           \* uses await; the others use yield from
Compat(p, a, c) ==
  CASE a = "cw" -> Awaits(p) /\ c = "coro"
    [] a = "ag" -> Awaits(p) /\ c = "gen"
    [] OTHER ->
       CASE c = "coro" -> p \in {"coro", "agen", "gcoro"}
         [] c = "gcoro" -> p \in {"coro", "agen", "gcoro", "gen"}   \* a gcoro object is a generator: yield from works too
         [] c = "gen" -> p \in {"gcoro", "gen"}
         [] c = "agen" -> Awaits(p)

\* a bare yield is possible in generator-type links only; an async generator's own yield suspends it
\* only as the ROOT of a chain (otherwise control returns to the parent, not a suspension of the chain)
TermOK(chain, t) ==
  LET n == Len(chain) IN
  CASE t = "done" -> n = 1
    [] t = "trap" -> n >= 1 /\ (chain[n].k \in {"gcoro", "gen"} \/ (chain[n].k = "agen" /\ n = 1))
    [] t = "iter" -> n >= 1
    [] t = "run" -> n >= 1

LinkRec == [k : Kinds, a : Adapters, via : AgenVia \cup {"-"}]
WellFormed(chain) ==
  /\ Len(chain) >= 1
  /\ chain[1].a = "direct" /\ chain[1].via = (IF chain[1].k = "agen" THEN "asend" ELSE "-")
  /\ chain[1].k # "gen" \/ TRUE
  /\ \A i \in 2..Len(chain) :
       /\ Compat(chain[i - 1].k, chain[i].a, chain[i].k)
       /\ (chain[i].k = "agen") = (chain[i].via # "-")
       /\ chain[i].k = "agen" => chain[i].a = "direct"

VARIABLES chain, term
vars == <<chain, term>>

Init == chain = <<>> /\ term = "-"
Extend == /\ term = "-" /\ Len(chain) < MaxLinks
          /\ \E r \in LinkRec : WellFormed(Append(chain, r)) /\ chain' = Append(chain, r)
          /\ term' = term
Finish == /\ term = "-" /\ chain # <<>>
          /\ \E t \in Terms : TermOK(chain, t) /\ term' = t
          /\ chain' = chain
Next == Extend \/ Finish
Spec == Init /\ [][Next]_vars

---------------------------------------------------------------------------
(* The object graph of a built chain and the built-in unwrap rules.        *)
(* Items: <<"L", i>> link object i; <<"A", i>> adapter object in front of   *)
(* link i; <<"W", i>> the awaitable link i-1 really waits on (coroutine    *)
(* wrapper, asend/athrow/anext awaitable); <<"F", i>> frame of link i;      *)
(* <<"I">> the leaf iterator; <<"N">> None.                                 *)
NoneI == <<"N">>
\* what link i is suspended on (cr_await / gi_yieldfrom / ag_await)
Waiting(i) ==
  IF i = Len(chain) THEN (IF term = "iter" THEN <<"I">> ELSE NoneI)
  ELSE LET c == chain[i + 1] IN
       CASE c.a = "cw" -> <<"W", i + 1>>        \* the coroutine_wrapper returned by A.__await__()
         [] c.a = "ag" -> <<"L", i + 1>>        \* the generator returned by A.__await__()
         [] c.k = "agen" -> <<"W", i + 1>>      \* asend / athrow / anext awaitable
         [] c.k = "coro" /\ ~Awaits(chain[i].k) -> <<"L", i + 1>>   \* gcoro: yield from coro
         [] OTHER -> <<"L", i + 1>>
\* unwrap_stackitem, built-in rules (suspended objects only)
GlueU(x) ==
  CASE x[1] = "L" -> IF term = "done" THEN << <<"F", x[2]>>, NoneI >>      \* finished: frame is None, await None
                     ELSE << <<"F", x[2]>>, Waiting(x[2]) >>
    [] x[1] = "W" -> << <<"L", x[2]>> >>
    [] OTHER -> <<>>           \* irreducible
RECURSIVE Flatten(_, _)
Flatten(x, fuel) ==
  IF fuel = 0 THEN << <<"?">> >>
  ELSE IF x = NoneI THEN <<>>
  ELSE IF x[1] = "F" THEN (IF term = "done" THEN <<>> ELSE <<x>>)     \* gi_frame of a finished generator is None
  ELSE IF x[1] \in {"I"} THEN <<x>>
  ELSE LET r == GlueU(x) IN
       IF Len(r) = 1 THEN Flatten(r[1], fuel - 1)
       ELSE Flatten(r[1], fuel - 1) \o Flatten(r[2], fuel - 1)
Flat == Flatten(<<"L", 1>>, 4 * MaxLinks + 4)
GlueFrames == [i \in 1..Len(SelectSeq(Flat, LAMBDA y : y[1] = "F")) |-> SelectSeq(Flat, LAMBDA y : y[1] = "F")[i][2]]
GlueLeaf == IF \E j \in 1..Len(Flat) : Flat[j][1] = "I" THEN "iter" ELSE "none"

\* what an exception thrown into the root would unwind through: every link, in order
ThrowPath == IF term = "done" THEN <<>> ELSE [i \in 1..Len(chain) |-> i]
GlueIsThrowPath == term # "-" => (GlueFrames = ThrowPath /\ GlueLeaf = (IF term = "iter" THEN "iter" ELSE "none"))
\* C16 on the model: the origin of frame i is link object i, whose first frame is frame i
OriginOf(i) == <<"L", i>>

Emit == (term # "-") => PrintT(<<"EMIT", ToJson([chain |-> chain, term |-> term, frames |-> GlueFrames, leaf |-> GlueLeaf])>>)
=============================================================================
