\* C09: manager trees given by the harness (CT_GIVEN=<json>); one expectation per tree
SPECIFICATION Spec
INVARIANT ExpectationWellFormed
INVARIANT OneChildPerCallback
CONSTRAINT Emit
CHECK_DEADLOCK FALSE
