\* C10: algorithm == documented rules, fault-free tables, acyclic wrappers
SPECIFICATION Spec
CONSTANTS
  NF = 2
  NW = 2
  NL = 1
  MaxLen = 2
  MaxLoops = 100
  MaxFaults = 0
  UKinds = {"none", "one", "seq"}
  EKinds = {"none", "replace", "insert"}
  Cyclic = FALSE
  AllowNone = FALSE
  ETargetSet = {1, 2, 4}
  MaxOut = 6
  CtxFaults = FALSE
  Fixed = TRUE
  Roots = {3}
  GenT = {}
  FixedF5 = TRUE
  NoWeak = {}
INVARIANT NeverEscapes
INVARIANT EquivRef
CONSTRAINT Bound
CHECK_DEADLOCK FALSE
