\* pattern T: traces recorded from the real implementation (EI_TRACES=<json file>)
\* ids: frames 1..40; wrappers 41..60 generator-type, 61..80 other weak-referenceable, 81..100 not weak-referenceable
SPECIFICATION TSpec
CONSTANTS
  NF = 40
  NW = 60
  NL = 0
  MaxLen = 0
  MaxLoops = 100
  MaxFaults = 9999
  UKinds = {}
  EKinds = {}
  Cyclic = TRUE
  AllowNone = TRUE
  ETargetSet = {}
  MaxOut = 60
  CtxFaults = TRUE
  Fixed = TRUE
  Roots = {}
  GenT = {41,42,43,44,45,46,47,48,49,50,51,52,53,54,55,56,57,58,59,60}
  FixedF5 = TRUE
  NoWeak = {81,82,83,84,85,86,87,88,89,90,91,92,93,94,95,96,97,98,99,100}
INVARIANT NeverEscapes
CONSTRAINT Progress
CHECK_DEADLOCK FALSE
