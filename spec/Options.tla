------------------------------ MODULE Options ------------------------------
(***************************************************************************)
(* M3: the per-thread extraction options of stackscope._extract             *)
(* (ExtractOptions(threading.local), push(), the extract_child guard and    *)
(* stub rule, fill_context's self-push), as call trees growing on several   *)
(* threads at once.                                                         *)
(*                                                                         *)
(* A thread's state is a stack of invocations made from hooks:              *)
(*   "extract" / "outermost"  push (with_contexts, recurse_child_tasks) and *)
(*                            restore the previous pair when they end, also *)
(*                            when they end by an exception                 *)
(*   "child"   extract_child: refuses outside an extraction; for_task=True  *)
(*             returns a frameless stub unless recursion was requested      *)
(*   "fill"    fill_context: pushes the defaults (True, False) iff called   *)
(*             outside any extraction                                       *)
(* cur[t] is the thread-local as the CODE maintains it (set on entry,       *)
(* restored from the saved value on exit); Scoped says it always equals the *)
(* options of the innermost enclosing extraction of that thread.            *)
(***************************************************************************)
EXTENDS Naturals, Sequences, FiniteSets, TLC

CONSTANTS Thr, MaxDepth, MaxSteps

None == <<"none">>
Opt(wc, rct) == <<wc, rct>>
Defaults == Opt(TRUE, FALSE)

VARIABLES cur,      \* [Thr -> Opt or None]   the thread-local
          stack,    \* [Thr -> Seq of [kind, saved, opts]]  (opts: the options this invocation set, None if it set none)
          last,     \* [Thr -> last observable result on that thread]
          steps
vars == <<cur, stack, last, steps>>

Init == /\ cur = [t \in Thr |-> None] /\ stack = [t \in Thr |-> <<>>]
        /\ last = [t \in Thr |-> <<"-">>] /\ steps = 0

Depth(t) == Len(stack[t])
Tick == steps < MaxSteps /\ steps' = steps + 1
PushF(t, kind, saved, opts) == stack' = [stack EXCEPT ![t] = Append(@, [kind |-> kind, saved |-> saved, opts |-> opts])]

(* extract(item, with_contexts=wc, recurse_child_tasks=rct) / extract_outermost(...) called on thread t
   (from the top level or from inside a hook): options pushed, the item's hook now runs *)
CallExtract(t, kind, wc, rct) ==
  /\ Tick /\ Depth(t) < MaxDepth /\ kind \in {"extract", "outermost"}
  /\ PushF(t, kind, cur[t], Opt(wc, rct))
  /\ cur' = [cur EXCEPT ![t] = Opt(wc, rct)]
  /\ last' = [last EXCEPT ![t] = <<"entered", kind>>]

(* extract_child(item, for_task=ft) *)
CallChild(t, ft) ==
  /\ Tick /\ Depth(t) < MaxDepth
  /\ IF cur[t] = None
     THEN /\ last' = [last EXCEPT ![t] = <<"guard-error">>] /\ UNCHANGED <<cur, stack>>      \* refuses to run
     ELSE IF ft /\ ~cur[t][2]
     THEN /\ last' = [last EXCEPT ![t] = <<"stub">>] /\ UNCHANGED <<cur, stack>>             \* frameless stub, no hook runs
     ELSE /\ PushF(t, "child", cur[t], None) /\ UNCHANGED cur
          /\ last' = [last EXCEPT ![t] = <<"entered", "child">>]

(* fill_context(context) *)
CallFill(t) ==
  /\ Tick /\ Depth(t) < MaxDepth
  /\ IF cur[t] = None
     THEN PushF(t, "fill", cur[t], Defaults) /\ cur' = [cur EXCEPT ![t] = Defaults]
     ELSE PushF(t, "fill", cur[t], None) /\ UNCHANGED cur
  /\ last' = [last EXCEPT ![t] = <<"entered", "fill">>]

(* what a hook (or top-level code) on thread t can observe through the public API *)
Observe(t) ==
  /\ Tick
  /\ last' = [last EXCEPT ![t] = IF cur[t] = None THEN <<"obs", "guard-error">>
                                 ELSE <<"obs", IF cur[t][2] THEN "full" ELSE "stub", IF cur[t][1] THEN "contexts" ELSE "bare">>]
  /\ UNCHANGED <<cur, stack>>

(* the innermost invocation ends -- normally or by an exception travelling through push()'s finally *)
Return(t) ==
  /\ Tick /\ Depth(t) > 0
  /\ LET f == stack[t][Depth(t)] IN
     /\ cur' = [cur EXCEPT ![t] = IF f.opts # None THEN f.saved ELSE @]
     /\ last' = [last EXCEPT ![t] = <<"returned", f.kind>>]
  /\ stack' = [stack EXCEPT ![t] = SubSeq(@, 1, Depth(t) - 1)]

Next == \E t \in Thr :
          \/ \E k \in {"extract", "outermost"}, wc \in BOOLEAN, rct \in BOOLEAN : CallExtract(t, k, wc, rct)
          \/ \E ft \in BOOLEAN : CallChild(t, ft)
          \/ CallFill(t) \/ Observe(t) \/ Return(t)
Spec == Init /\ [][Next]_vars

---------------------------------------------------------------------------
\* the options in effect according to the call tree: those of the innermost invocation that set any
RECURSIVE Eff(_, _)
Eff(s, i) == IF i = 0 THEN None ELSE IF s[i].opts # None THEN s[i].opts ELSE Eff(s, i - 1)
\* Scoped: the thread-local always equals the options of the innermost enclosing extraction of that thread, and
\* every saved value is what was in effect when its invocation began (so unwinding restores frame by frame)
Scoped == \A t \in Thr :
            /\ cur[t] = Eff(stack[t], Depth(t))
            /\ \A i \in 1..Depth(t) : stack[t][i].opts # None => stack[t][i].saved = Eff(stack[t], i - 1)
View == <<cur, stack>>
IdleIsNone == \A t \in Thr : Depth(t) = 0 => cur[t] = None
\* threads never influence each other: the thread-local of t changes only in steps of t (action property)
Isolated == [][\A t \in Thr : (cur'[t] # cur[t]) => (stack'[t] # stack[t])]_vars
=============================================================================
