\* C14 (foreign threads): 3 threads, alternation depth <= 2, exhaustive under VIEW
SPECIFICATION Spec
CONSTANTS
  Threads = {"A", "B", "C"}
  MaxD = 2
  MaxSteps = 12
INVARIANT ServingImpliesCalled
INVARIANT TailOnlyWhenServing
VIEW View
CHECK_DEADLOCK FALSE
