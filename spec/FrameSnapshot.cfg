\* C07: every interleaving of the inspector's statement groups with the target's progress (as coded)
SPECIFICATION Spec
CONSTANTS
  MaxAttempts = 3
  MaxIter = 2
  CheckReadAtomic = TRUE
  HeaderGuard = TRUE
  HD = 1
INVARIANT NoCrash
INVARIANT NoUseAfterFree
INVARIANT SnapshotSingleInstant
INVARIANT AtMostAttempts
VIEW View
CHECK_DEADLOCK FALSE
