\* C20 (mode switch): every sequence of set / begin / acquire / finish steps on two threads, at the grain of the code
SPECIFICATION Spec
CONSTANTS
  Thr = {"t1", "t2"}
  MaxSteps = 5
  NoRecheck = FALSE
INVARIANT TypeOK
INVARIANT LockDiscipline
INVARIANT SetTakesEffect
PROPERTY ExplicitSettingSurvives
CONSTRAINT Emit
CHECK_DEADLOCK FALSE
