\* C20 (mode switch): every sequence of 5 set / extract operations on two threads
SPECIFICATION Spec
CONSTANTS
  Thr = {"t1", "t2"}
  MaxSteps = 4
INVARIANT SetTakesEffect
CONSTRAINT Emit
CHECK_DEADLOCK FALSE
