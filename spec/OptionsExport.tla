--------------------------- MODULE OptionsExport ---------------------------
(* Options with a labelled next-state relation; `acts` (what each thread does) and `outs` (the observable result
   the spec predicts for that step) are exported per behaviour for the thread-schedule replay driver. *)
EXTENDS Options, Json

VARIABLES acts, outs
xvars == <<vars, acts, outs>>
Lab(a, t) == acts' = Append(acts, a) /\ outs' = Append(outs, last'[t])
XInit == Init /\ acts = <<>> /\ outs = <<>>
XNext == \E t \in Thr :
          \/ \E k \in {"extract", "outermost"}, wc \in BOOLEAN, rct \in BOOLEAN :
                CallExtract(t, k, wc, rct) /\ Lab([t |-> t, a |-> k, wc |-> wc, rct |-> rct, ft |-> FALSE], t)
          \/ \E ft \in BOOLEAN : CallChild(t, ft) /\ Lab([t |-> t, a |-> "child", wc |-> FALSE, rct |-> FALSE, ft |-> ft], t)
          \/ CallFill(t) /\ Lab([t |-> t, a |-> "fill", wc |-> FALSE, rct |-> FALSE, ft |-> FALSE], t)
          \/ Observe(t) /\ Lab([t |-> t, a |-> "observe", wc |-> FALSE, rct |-> FALSE, ft |-> FALSE], t)
          \/ Return(t) /\ Lab([t |-> t, a |-> "return", wc |-> FALSE, rct |-> FALSE, ft |-> FALSE], t)
XSpec == XInit /\ [][XNext]_xvars
AllIdle == \A t \in Thr : Depth(t) = 0
Emit == (steps = MaxSteps) => PrintT(<<"EMIT", ToJson([acts |-> acts, outs |-> outs, depth |-> [t \in Thr |-> Depth(t)]])>>)
=============================================================================
