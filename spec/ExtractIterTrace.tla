------------------------- MODULE ExtractIterTrace -------------------------
(***************************************************************************)
(* Pattern T for M1: executions of the REAL extract_iter, recorded through  *)
(* the guarded probes H1 (one event per spec action, carrying the projected *)
(* deques) and logging delegates around unwrap_stackitem / elaborate_frame  *)
(* (the hook results), are checked to be behaviours of ExtractIter.         *)
(* The hook tables are not given: they are memoised from the events, so a   *)
(* trace is also rejected when a hook is not a function of its item.        *)
(* Thousands of traces are batched in one file; tid picks one.              *)
(***************************************************************************)
EXTENDS ExtractIter, Json, IOUtils

Traces == JsonDeserialize(IOEnv.EI_TRACES)
VARIABLES tid, l
tvars == <<vars, tid, l>>
Tr == Traces[tid]
Ev == Tr.events[l]
More == l <= Len(Tr.events)
\* The candidate origin carried by a queued item (field o of to_unwrap entries) is bookkeeping: it becomes observable
\* only when a frame is popped, as the origin of the Frame in to_elaborate.  So to_unwrap is compared without it (a
\* refactoring of that bookkeeping that yields the same Frame origins is still a behaviour), to_elaborate in full.
NoO(q) == [k \in 1..Len(q) |-> [x |-> q[k].x, d |-> q[k].d, w |-> q[k].w]]
Match == /\ NoO(toU') = NoO(Ev.tu) /\ toE' = Ev.te /\ loops' = Ev.loops /\ Len(errors') = Ev.nerr
Step == l' = l + 1 /\ UNCHANGED tid

TInit == /\ tid \in 1..Len(Traces) /\ l = 1 /\ InitWith(Traces[tid].root)
TPopFrame == More /\ Ev.act = "PopFrame" /\ PopFrameWith(Ev.own) /\ Match /\ Step
TUnwrap == More /\ Ev.act = "Unwrap" /\ UnwrapWith(Ev.r) /\ Match /\ Step
TToElab == ToElab /\ UNCHANGED <<tid, l>>        \* silent: no probe (bounded: enabled once per phase)
TReachLeaf == More /\ Ev.act = "ReachLeaf" /\ ReachLeaf /\ toE = Ev.te /\ NoO(toU) = NoO(Ev.tu) /\ Step
TElab == More /\ Ev.act = "Elab" /\ ElabWith(Ev.cf, Ev.r) /\ Match /\ Step
\* the outer loop may also end through its own condition (both deques empty): no probe there
TEndSilent == ~More /\ toE = <<>> /\ ReachLeaf /\ UNCHANGED <<tid, l>>
TNext == TPopFrame \/ TUnwrap \/ TToElab \/ TReachLeaf \/ TElab \/ TEndSilent
TSpec == TInit /\ [][TNext]_tvars

Consumed == l > Len(Tr.events)
\* Verdicts are reported per trace (one bad trace must not stop the batch), as fields of the EMIT line.
\* a finished extraction ended where the spec ends, with the frames / origins / leaf the spec computed
FinalOK == IF Tr.finished
           THEN /\ pc = "done"
                /\ OutFrames = Tr.yielded
                /\ [i \in 1..Len(out) |-> out[i].o] = Tr.origins
                /\ leaf = Tr.leaf
           ELSE \* an abandoned one (extract_outermost stops at the first yield, before the Elab probe):
                \* what it yielded is what the spec yielded, plus possibly the frame being elaborated
                IF Len(Tr.yielded) = Len(out) + 1
                THEN /\ toE # <<>> /\ Head(toE).x = Tr.yielded[Len(Tr.yielded)]
                     /\ SubSeq(Tr.yielded, 1, Len(out)) = OutFrames
                ELSE Tr.yielded = OutFrames
EquivOK == EquivRefBounded
OriginStrictBad == {i \in 1..Len(out) : out[i].o # NoneItem /\
                      ~(Weak(out[i].o) /\ out[i].o \in GenT /\ FirstFrameOf(out[i].o) = out[i].f)}
OriginExcused == {i \in OriginStrictBad : InheritedOrigin(i)}
SetToSeq(S) == [i \in 1..Cardinality(S) |-> CHOOSE y \in S : Cardinality({z \in S : z < y}) = i - 1]
Progress == IF Consumed
            THEN PrintT(<<"EMIT", ToJson([tid |-> tid, l |-> l, pc |-> pc, final |-> FinalOK,
                                          equiv |-> (IF Tr.finished THEN EquivOK ELSE TRUE),
                                          obad |-> SetToSeq(IF Tr.finished THEN OriginStrictBad ELSE {}),
                                          oexc |-> SetToSeq(IF Tr.finished THEN OriginExcused ELSE {})])>>)
            ELSE PrintT(<<"EMIT", ToJson([tid |-> tid, l |-> l])>>)
=============================================================================
