\* the async_generator backport rows: every chain of up to 3 links over {coro, agen, bagen}
SPECIFICATION Spec
CONSTANTS
  MaxLinks = 3
INVARIANT RowsGiveThrowPath
INVARIANT VisibleAreUsersOrNamed
CONSTRAINT Emit
CHECK_DEADLOCK FALSE
