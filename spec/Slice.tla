------------------------------- MODULE Slice -------------------------------
(***************************************************************************)
(* M8 (the thread stack as greenlet segments) for C04.                      *)
(* A thread stack is a sequence of greenlet segments, outermost greenlet    *)
(* first; frames are numbered 1..N outermost first; the caller of           *)
(* stackscope is frame N.  segs[k] is the number of frames in segment k.    *)
(*                                                                         *)
(*   RefSlice  -- the SPECIFICATION: the contiguous sub-sequence named by   *)
(*                (outer, inner, limit); a limit keeps the frames nearest   *)
(*                the anchor (outer if only outer is given, else inner /    *)
(*                the caller)                                               *)
(*   AlgSlice  -- _glue.unwrap_stackslice transcribed operator by operator  *)
(*                (this_thread_frames innermost-first list, from_idx - 1,   *)
(*                to_idx, the [to:from:-1] slice, try_from's f_back walk    *)
(*                that stops at a segment boundary on CPython, the two      *)
(*                `del` forms)                                              *)
(* 0 stands for None.                                                       *)
(***************************************************************************)
EXTENDS Naturals, Integers, Sequences, FiniteSets, TLC, Json, IOUtils

\* the stack shapes to explore: measured by the harness on the real stacks it can build (thread bootstrap frames and
\* the helper frames of generator / coroutine carriers are frames like any other), given as JSON
Shapes == JsonDeserialize(IOEnv.SL_SHAPES)

VARIABLES segs, outer, inner, limit
vars == <<segs, outer, inner, limit>>

RECURSIVE SumTo(_, _)
SumTo(s, k) == IF k = 0 THEN 0 ELSE s[k] + SumTo(s, k - 1)
N == SumTo(segs, Len(segs))
SegOf(f) == CHOOSE k \in 1..Len(segs) : SumTo(segs, k - 1) < f /\ f <= SumTo(segs, k)
SegStart(k) == SumTo(segs, k - 1) + 1

Init == /\ segs \in {Shapes[i] : i \in 1..Len(Shapes)}
        /\ outer \in 0..SumTo(segs, Len(segs)) /\ inner \in 0..SumTo(segs, Len(segs))
        /\ limit \in 0..(SumTo(segs, Len(segs)) + 1)       \* 0 = no limit
        /\ (outer # 0 /\ inner # 0) => outer <= inner
Next == UNCHANGED vars
Spec == Init /\ [][Next]_vars

Range(a, b) == IF a > b THEN <<>> ELSE [i \in 1..(b - a + 1) |-> a + i - 1]
FirstK(s, k) == IF k = 0 \/ Len(s) <= k THEN s ELSE SubSeq(s, 1, k)
LastK(s, k) == IF k = 0 \/ Len(s) <= k THEN s ELSE SubSeq(s, Len(s) - k + 1, Len(s))

(* ---- the specification *)
RefSlice == LET lo == IF outer = 0 THEN 1 ELSE outer
                hi == IF inner = 0 THEN N ELSE inner
                sub == Range(lo, hi)
            IN IF inner = 0 /\ outer # 0 THEN FirstK(sub, limit) ELSE LastK(sub, limit)

(* ---- the algorithm as coded (CPython; the caller is frame N) *)
\* this_thread_frames is innermost first: position p (0-based) holds frame N - p
Idx(f) == N - f
GreenletBranch ==
   LET fromIdx == IF inner = 0 \/ inner = N THEN -99 ELSE Idx(inner) - 1      \* -99 stands for None
       toIdx == IF outer = 0 THEN N ELSE Idx(outer)
       start == IF toIdx >= N THEN N - 1 ELSE toIdx          \* python slice start clamps
       stopExcl == IF fromIdx = -99 THEN -1 ELSE fromIdx
   IN IF start <= stopExcl THEN <<>> ELSE [i \in 1..(start - stopExcl) |-> N - (start - i + 1)]
TryFrom(pin) ==     \* walk f_back inside pin's own segment only
   LET k == SegOf(pin)  s0 == SegStart(k) IN
   IF outer = 0 THEN Range(s0, pin)
   ELSE IF outer >= s0 /\ outer <= pin THEN Range(outer, pin) ELSE <<>>
AlgFrames == LET g == IF Len(segs) > 1 THEN GreenletBranch ELSE <<>>
             IN IF g # <<>> THEN g ELSE TryFrom(IF inner = 0 THEN N ELSE inner)
\* not found on this thread: the code yields outer alone and records an error
AlgSlice == LET fr == AlgFrames IN
            IF fr = <<>> THEN << >>
            ELSE IF inner = 0 /\ outer # 0 THEN FirstK(fr, limit) ELSE LastK(fr, limit)

Same == AlgSlice = RefSlice
Emit == PrintT(<<"EMIT", ToJson([segs |-> segs, outer |-> outer, inner |-> inner, limit |-> limit, expect |-> RefSlice])>>)
=============================================================================
