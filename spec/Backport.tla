------------------------------ MODULE Backport ------------------------------
(***************************************************************************)
(* "ExtractGlue" rows for the async_generator BACKPORT library              *)
(* (stackscope._glue.glue_async_generator), next to the native rows of      *)
(* Chains.tla.  Growth beyond the listed properties: C03's quantifier names *)
(* native async generators only; programs written for the backport          *)
(*      @async_generator                                                    *)
(*      async def agen(): ... await yield_(v) ... await yield_from_(other)  *)
(* are driven through PYTHON-level awaitables, so library frames and        *)
(* frameless adapter objects sit between the user's frames.                 *)
(*                                                                         *)
(* A chain is a sequence of links, outermost first; link kinds              *)
(*   "coro"   native coroutine                                              *)
(*   "agen"   native async generator                                        *)
(*   "bagen"  backport async generator (an AsyncGenerator object around a   *)
(*            coroutine that awaits yield_())                               *)
(* link i+1 is reached from link i through `via`:                           *)
(*   "await"                      (child is a coro)                         *)
(*   "anext" "asend" "asyncfor" "athrow" "aclose"   (child is agen / bagen) *)
(*   "yf"     await yield_from_(child)  (parent is a bagen)                 *)
(* and the chain ends in                                                    *)
(*   "trap"   the last link awaits a generator-based coroutine that yields  *)
(*   "iter"   the last link awaits an object whose __await__ returns a plain *)
(*            iterator: cr_await is that iterator, the leaf                 *)
(*   "own"    a one-link chain whose (async generator) root is suspended at *)
(*            its own yield                                                 *)
(*                                                                         *)
(* The object graph of a built chain (Waiting) and the unwrap / customize    *)
(* rows (Row) are written out one by one, as registered by the glue; Walk    *)
(* applies them the way extract_iter does.  Reference is what a throw into   *)
(* the root unwinds through (the frames that exist before the throw), with   *)
(* the library frames the glue is meant to hide marked.                     *)
(***************************************************************************)
EXTENDS Naturals, Sequences, FiniteSets, TLC, Json

CONSTANTS MaxLinks

Kinds == {"coro", "agen", "bagen"}
AgenVia == {"anext", "asend", "asyncfor", "athrow", "aclose"}
Terms == {"trap", "iter", "own"}
IsGen(k) == k \in {"agen", "bagen"}

ViaOK(p, v, c) == CASE c = "coro" -> v = "await"
                    [] v = "yf" -> p = "bagen" /\ IsGen(c)
                    [] OTHER -> IsGen(c) /\ v \in AgenVia
LinkRec == [k : Kinds, via : AgenVia \cup {"await", "yf", "root"}]
WellFormed(ch) == /\ Len(ch) >= 1 /\ ch[1].via = "root"
                  /\ \A i \in 2..Len(ch) : ViaOK(ch[i - 1].k, ch[i].via, ch[i].k)
TermOK(ch, t) == IF t = "own" THEN Len(ch) = 1 /\ IsGen(ch[1].k) ELSE Len(ch) >= 1

VARIABLES chain, term
vars == <<chain, term>>
Init == chain = <<>> /\ term = "-"
Extend == /\ term = "-" /\ Len(chain) < MaxLinks
          /\ \E r \in LinkRec : WellFormed(Append(chain, r)) /\ chain' = Append(chain, r)
          /\ UNCHANGED term
Finish == /\ term = "-" /\ chain # <<>> /\ \E t \in Terms : TermOK(chain, t) /\ term' = t
          /\ UNCHANGED chain
Next == Extend \/ Finish
Spec == Init /\ [][Next]_vars

---------------------------------------------------------------------------
(* Objects: <<"L", i>>  link object i (coroutine, async generator, or the   *)
(*                      backport's AsyncGenerator)                          *)
(*          <<"C", i>>  the coroutine inside backport generator i           *)
(*          <<"NA", i>> native asend / athrow / anext awaitable of agen i    *)
(*          <<"S", i>>  the backport's `step` coroutine driving bagen i      *)
(*          <<"X", i>>  the ANextIter `step` awaits                          *)
(*          <<"CW", i>> the coroutine_wrapper (bagen i's _it)                *)
(*          <<"AC", i>> AsyncGenerator.aclose() coroutine of bagen i         *)
(*          <<"YF", i>> the yield_from_() coroutine delegating to link i     *)
(*          <<"Y">>     the yield_() coroutine, <<"YT">> the _yield_ trap    *)
(*          <<"T">>     the trap generator, <<"I">> the leaf iterator,       *)
(*          <<"N">>     None                                                *)
(* Frames:  <<"F", tag, i>> with tag \in {"link","step","aclose","yf",       *)
(*          "yield","ytrap","trap"}                                         *)
NoneI == <<"N">>
Body(i) == IF chain[i].k = "bagen" THEN <<"C", i>> ELSE <<"L", i>>      \* the object whose frame is the user's
\* what drives generator i for a parent that used `v`
Driver(i, v) ==
  IF chain[i].k = "agen" THEN <<"NA", i>>                                \* C-level awaitables, all of them
  ELSE IF v = "aclose" THEN <<"AC", i>> ELSE <<"S", i>>                  \* Python-level coroutines
\* what the user's frame of link i is suspended on (cr_await / ag_await)
Waiting(i) ==
  IF i = Len(chain)
  THEN (CASE term = "trap" -> <<"T">> [] term = "iter" -> <<"I">>
          [] term = "own" -> (IF chain[i].k = "bagen" THEN <<"Y">> ELSE NoneI))
  ELSE LET c == chain[i + 1] IN
       CASE c.via = "await" -> <<"L", i + 1>>
         [] c.via = "yf" -> <<"YF", i + 1>>
         [] OTHER -> Driver(i + 1, c.via)
\* a coroutine-like object: its frame and what that frame awaits
CoroParts(x) ==
  CASE x[1] = "L" -> << <<"F", "link", x[2]>>, Waiting(x[2]) >>
    [] x[1] = "C" -> << <<"F", "link", x[2]>>, Waiting(x[2]) >>
    [] x[1] = "S" -> << <<"F", "step", x[2]>>, <<"X", x[2]>> >>
    [] x[1] = "AC" -> << <<"F", "aclose", x[2]>>, <<"S", x[2]>> >>                 \* aclose awaits self.athrow(...)
    [] x[1] = "YF" -> << <<"F", "yf", x[2]>>, Driver(x[2], "anext") >>             \* yield_from_ awaits __anext__ / asend
    [] x[1] = "Y" -> << <<"F", "yield", 0>>, <<"YT">> >>
    [] x[1] = "YT" -> << <<"F", "ytrap", 0>>, NoneI >>
    [] x[1] = "T" -> << <<"F", "trap", 0>>, NoneI >>

\* ---- the rows: unwrap_stackitem as registered by glue_builtins and glue_async_generator
Row(x) ==
  CASE x[1] = "L" /\ chain[x[2]].k = "bagen" -> << <<"C", x[2]>> >>               \* unwrap_async_generator_backport: agen._coroutine
    [] x[1] \in {"C", "S", "AC", "YF", "Y", "YT", "T"} -> CoroParts(x)            \* coroutine / generator: frame, awaited
    [] x[1] = "L" /\ chain[x[2]].k # "bagen" -> CoroParts(x)                        \* coroutine / native async generator
    [] x[1] = "NA" -> << <<"L", x[2]>> >>                                          \* unwrap_async_generator_asend_athrow
    [] x[1] = "X" -> << <<"CW", x[2]>> >>                                          \* unwrap_async_generator_backport_next_iter: aw._it
    [] x[1] = "CW" -> << <<"C", x[2]>> >>                                          \* unwrap_coroutine_wrapper
    [] OTHER -> <<>>                                                               \* irreducible: the plain iterator
\* ---- customize() rows: flags of library frames
Hide(f) == f[2] \in {"step", "yield"}          \* customize(asend_coro.cr_code, hide=True); customize(yield_, hide=True, prune=True)
Prune(f) == f[2] = "yield"

RECURSIVE Walk(_, _)
Walk(x, fuel) ==
  IF fuel = 0 THEN << <<"?">> >>
  ELSE IF x = NoneI THEN <<>>
  ELSE IF x[1] = "F" THEN <<x>>
  ELSE LET r == Row(x) IN
       IF r = <<>> THEN <<x>>                                 \* a leaf
       ELSE IF Len(r) = 1 THEN Walk(r[1], fuel - 1)
       ELSE IF Prune(r[1]) THEN <<r[1]>>                      \* pruned: nothing inward of this frame
       ELSE <<r[1]>> \o Walk(r[2], fuel - 1)
Flat == Walk(<<"L", 1>>, 8 * MaxLinks + 8)
FramesOf(s) == SelectSeq(s, LAMBDA y : y[1] = "F")
Entry(f) == [tag |-> f[2], link |-> f[3], hide |-> Hide(f)]
GlueFrames == [j \in 1..Len(FramesOf(Flat)) |-> Entry(FramesOf(Flat)[j])]
GlueLeaf == IF \E j \in 1..Len(Flat) : Flat[j][1] = "I" THEN "iter" ELSE "none"

---------------------------------------------------------------------------
(* Reference: the frames a throw into the root unwinds through, listed       *)
(* directly from the shape of the chain (no object graph, no rows).          *)
Lib(tag, i, h) == [tag |-> tag, link |-> i, hide |-> h]
Between(i) ==   \* library frames in front of link i's own frame
  LET c == chain[i] IN
  IF i = 1 \/ c.via = "await" THEN <<>>
  ELSE (IF c.via = "yf" THEN <<Lib("yf", i, FALSE)>> ELSE <<>>)
       \o (IF c.k = "bagen" /\ c.via = "aclose" THEN <<Lib("aclose", i, FALSE)>> ELSE <<>>)
       \o (IF c.k = "bagen" THEN <<Lib("step", i, TRUE)>> ELSE <<>>)
RECURSIVE RefFrom(_)
RefFrom(i) == IF i > Len(chain) THEN <<>> ELSE Between(i) \o <<Lib("link", i, FALSE)>> \o RefFrom(i + 1)
RefTail == CASE term = "trap" -> <<Lib("trap", 0, FALSE)>>
             [] term = "own" -> IF chain[1].k = "bagen" THEN <<Lib("yield", 0, TRUE)>> ELSE <<>>    \* yield_'s own trap is pruned
             [] OTHER -> <<>>
Reference == RefFrom(1) \o RefTail

RowsGiveThrowPath == term # "-" => (GlueFrames = Reference /\ GlueLeaf = (IF term = "iter" THEN "iter" ELSE "none"))
\* the frames the user sees (not hidden) are the user's own plus the two library coroutines the glue leaves visible
VisibleAreUsersOrNamed == term # "-" => \A j \in 1..Len(GlueFrames) :
                             ~GlueFrames[j].hide => GlueFrames[j].tag \in {"link", "trap", "aclose", "yf"}
Emit == (term # "-") => PrintT(<<"EMIT", ToJson([chain |-> chain, term |-> term, frames |-> GlueFrames, leaf |-> GlueLeaf])>>)
=============================================================================
