------------------------- MODULE MC_GlueInstall -------------------------
(* Model-checking wrapper for GlueInstall: attribute vectors as definitions. *)
EXTENDS GlueInstall

\* attribute vectors (one per config, so that their state spaces add instead of multiplying)
ModAB == {"a", "b"}
ModABC == {"a", "b", "c"}
NoMods == {}
OnlyC == {"c"}
ModBC == {"b", "c"}
FlavBoth == [m \in ModAB |-> IF m = "a" THEN "ok" ELSE "none"]          \* a: own glue (+ built-in, see HasB); b: built-in only
FlavRaise == [m \in ModAB |-> IF m = "a" THEN "raises" ELSE "ok"]
FlavImports == [m \in ModABC |-> IF m = "a" THEN "imports" ELSE IF m = "c" THEN "ok" ELSE "none"]
FlavRemoves == [m \in ModAB |-> IF m = "a" THEN "removes" ELSE "ok"]    \* a's glue removes b mid-scan (F9)
\* "alias": a and b are two NAMES of one module object (a vendored package re-exported under its usual name) that has no
\* glue function of its own; built-in glue is keyed by name, so each name's built-in glue is owed exactly once
FlavAlias == [m \in ModAB |-> "none"]
FlavMix3 == [m \in ModABC |-> IF m = "a" THEN "ok" ELSE IF m = "b" THEN "raises" ELSE "none"]

=============================================================================
