\* C14: all evolutions of task trees with <= 4 tasks, nursery nesting <= 2 (exhaustive under VIEW)
SPECIFICATION Spec
CONSTANTS
  MaxTasks = 4
  MaxNest = 2
  MaxSteps = 10
  Endings = {"plain"}
  Starts = TRUE
  Portals = TRUE
INVARIANT TreeShape
INVARIANT AexitHasKids
VIEW View
CHECK_DEADLOCK FALSE
