\* pattern R: tables given by the harness (EI_GIVEN=<json file>), one behaviour per table set
SPECIFICATION GSpec
CONSTANTS
  NF = 3
  NW = 3
  NL = 1
  MaxLen = 3
  MaxLoops = 100
  MaxFaults = 99
  UKinds = {"none", "raise", "one", "seq", "iter", "iterfail"}
  EKinds = {"none", "raise", "replace", "insert"}
  Cyclic = TRUE
  AllowNone = TRUE
  ETargetSet = {1, 2, 3, 4, 5, 6, 7}
  MaxOut = 12
  CtxFaults = TRUE
  Fixed = TRUE
  Roots = {4}
  GenT = {}
  FixedF5 = TRUE
  NoWeak = {}
INVARIANT NeverEscapes
INVARIANT EquivRefBounded
INVARIANT ElabFaultKept
INVARIANT OutwardKept
CONSTRAINT BoundEmit
CHECK_DEADLOCK FALSE
