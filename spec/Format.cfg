\* C18 / C19: abstract Stack trees given by the harness (FM_GIVEN=<json>) x the four (show_contexts, show_hidden_frames) sets
SPECIFICATION Spec
INVARIANT NoContextsIsFrameSeries
INVARIANT WellPrefixed
INVARIANT SummaryPlain
CONSTRAINT Emit
CHECK_DEADLOCK FALSE
