SPECIFICATION XSpec
CONSTANTS
  Thr = {"t1", "t2"}
  MaxDepth = 3
  MaxSteps = 24
INVARIANT Scoped
INVARIANT IdleIsNone
CONSTRAINT Emit
CHECK_DEADLOCK FALSE
