\* C17: module a has its own glue AND a built-in one, module b only a built-in one; 2 threads x 2 extractions,
\* <= 3 environment actions, every interleaving at probe-point granularity
SPECIFICATION Spec
CONSTANTS
  Mod <- ModAB
  Thr = {"t1", "t2"}
  NoT = "none"
  HasB <- ModAB
  Flavour <- FlavBoth
  ImpTarget = "b"
  MaxEnv = 3
  MaxExtract = 2
  FixedF9 = TRUE
INVARIANT AtMostOnce
INVARIANT ModuleBeatsBuiltin
INVARIANT InTimeF4
INVARIANT LockDiscipline
INVARIANT OneInside
INVARIANT WarnOnly
CHECK_DEADLOCK FALSE
