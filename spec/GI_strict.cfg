\* C17 with the F9 repair modelled: at-most-once and module-beats-builtin hold with NO excuse
SPECIFICATION Spec
CONSTANTS
  Mod <- ModAB
  Thr = {"t1", "t2"}
  NoT = "none"
  HasB <- ModAB
  Flavour <- FlavRemoves
  ImpTarget = "b"
  MaxEnv = 3
  MaxExtract = 2
  FixedF9 = TRUE
INVARIANT AtMostOnce
INVARIANT ModuleBeatsBuiltin
INVARIANT LockDiscipline
INVARIANT OneInside
CHECK_DEADLOCK FALSE
