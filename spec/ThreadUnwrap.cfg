SPECIFICATION Spec
INVARIANT FramesBelongToThread
INVARIANT NotAliveGivesEmpty
CONSTRAINT Emit
CHECK_DEADLOCK FALSE
