\* C15 (greenback): every logical stack of depth <= 6, exhaustive under VIEW (history variables hidden)
SPECIFICATION Spec
CONSTANTS
  MaxDepth = 6
  MaxSteps = 14
  FixedF17 = TRUE
  WithCms = TRUE
INVARIANT BridgeContinuesInside
INVARIANT BridgeContinuesOutside
INVARIANT InternalsHidden
INVARIANT OneGreenlet
INVARIANT PortalIffGreenlet
INVARIANT SyncOnlyInsidePortalWhenParked
INVARIANT TrapLast
INVARIANT AwaitChainIsAsync
VIEW View
CHECK_DEADLOCK FALSE
