------------------------- MODULE ExtractIterGiven -------------------------
(***************************************************************************)
(* ExtractIter with the hook tables GIVEN (complete) instead of drawn:     *)
(* used in both binding directions.                                        *)
(*  - pattern R: the harness writes N table sets (exhaustive small spaces   *)
(*    and seeded random larger ones) to a JSON file; TLC runs the spec's    *)
(*    algorithm and the reference on each and prints the terminal state;    *)
(*    the replay driver installs the same tables through the public hook    *)
(*    API of the real implementation and compares.                          *)
(*  - the invariants (EquivRef, NeverEscapes, ...) are checked on every     *)
(*    given table set as well.                                              *)
(***************************************************************************)
EXTENDS ExtractIter, Json, IOUtils

Given == JsonDeserialize(IOEnv.EI_GIVEN)
VARIABLE tid
gvars == <<vars, tid>>

GInit == /\ tid \in 1..Len(Given)
         /\ U = [w \in Wraps |-> Given[tid].U[w - NF]]
         /\ E = [f \in Frames |-> Given[tid].E[f]]
         /\ C = [f \in Frames |-> IF Given[tid].C[f] THEN 1 ELSE 0]
         /\ root = Given[tid].root
         /\ toU = << [x |-> root, d |-> 0, o |-> BetterOrigin(root, NoneItem), w |-> FALSE] >>
         /\ toE = <<>> /\ loops = 0 /\ errors = <<>> /\ out = <<>> /\ leaf = NoneV
         /\ pc = "unwrap" /\ faults = 0
GNext == Next /\ UNCHANGED tid
GSpec == GInit /\ [][GNext]_gvars

\* fault-free sibling tables (sib = 0: none given)
HasSib == Given[tid].sib # 0
SibU == [w \in Wraps |-> Given[Given[tid].sib].U[w - NF]]
SibE == [f \in Frames |-> Given[Given[tid].sib].E[f]]
OutwardKept == (pc = "done" /\ HasSib /\ \A i \in 1..Len(errors) : errors[i][1] # "guard") => OutwardKeptOn(SibU, SibE)
Export == [tid |-> tid, pc |-> pc, out |-> out, leaf |-> leaf, errors |-> errors]
Emit == (pc \in {"done", "escaped"}) => PrintT(<<"EMIT", ToJson(Export)>>)
BoundEmit == Bound /\ Emit
=============================================================================
