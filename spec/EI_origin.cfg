\* C16 on the model: wrappers 3 and 4 are generator-type objects; every frame's origin, if any, is a
\* weak-referenceable generator-type object whose first frame is that frame -- except for frames that inherit
\* the origin of an earlier frame of the same extraction (finding F5, the excuse in OriginContractX)
SPECIFICATION Spec
CONSTANTS
  NF = 2
  NW = 3
  NL = 1
  MaxLen = 2
  MaxLoops = 100
  MaxFaults = 0
  UKinds = {"none", "one", "seq"}
  EKinds = {"none", "replace"}
  Cyclic = FALSE
  AllowNone = FALSE
  ETargetSet = {2, 5}
  MaxOut = 5
  CtxFaults = FALSE
  Fixed = TRUE
  Roots = {3}
  GenT = {3, 4}
  NoWeak = {5}
INVARIANT OriginContractX
INVARIANT OutermostIsFirst
INVARIANT NeverEscapes
CONSTRAINT Bound
CHECK_DEADLOCK FALSE
