\* C16 on the model: wrappers 3 and 4 are generator-type objects; every frame's origin, if any, is a
\* weak-referenceable generator-type object whose first frame is that frame (strictly, since the repair of finding
\* F5; with FixedF5 = FALSE the model violates OriginContract and satisfies only the excused OriginContractX)
SPECIFICATION Spec
CONSTANTS
  NF = 2
  NW = 3
  NL = 1
  MaxLen = 2
  MaxLoops = 100
  MaxFaults = 0
  UKinds = {"none", "one", "seq"}
  EKinds = {"none", "replace"}
  Cyclic = FALSE
  AllowNone = FALSE
  ETargetSet = {2, 5}
  MaxOut = 5
  CtxFaults = FALSE
  Fixed = TRUE
  Roots = {3}
  GenT = {3, 4}
  FixedF5 = TRUE
  NoWeak = {5}
INVARIANT OriginContract
INVARIANT OriginContractX
INVARIANT OutermostIsFirst
INVARIANT NeverEscapes
CONSTRAINT Bound
CHECK_DEADLOCK FALSE
