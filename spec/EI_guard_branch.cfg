\* F12 (known finding, C10): a wrapper that unwraps to TWO references into its own cycle.  The guard trips,
\* records an error -- and the loop carries on with a queue that never shrinks.  On the model this shows as a
\* second guard trip in one extraction (OneGuardTripEnds is EXPECTED to be violated while F12 is open).
SPECIFICATION Spec
CONSTANTS
  NF = 1
  NW = 2
  NL = 1
  MaxLen = 2
  MaxLoops = 3
  MaxFaults = 0
  UKinds = {"none", "one", "seq"}
  EKinds = {"none"}
  Cyclic = TRUE
  AllowNone = FALSE
  ETargetSet = {}
  MaxOut = 99
  CtxFaults = FALSE
  Fixed = TRUE
  Roots = {2}
  GenT = {}
  FixedF5 = TRUE
  NoWeak = {}
INVARIANT OneGuardTripEnds
CONSTRAINT Bound
CHECK_DEADLOCK FALSE
