------------------------------ MODULE WithLang ------------------------------
(***************************************************************************)
(* M7: the OBSERVED program.  A small-step semantics of the statement       *)
(* language of C01/C02's quantifier (with / async with, try / except /      *)
(* else / finally, for, while, if, return, break, continue, raise,          *)
(* suspension points, probe sites), executed by CPython -- stackscope only   *)
(* observes it.  The abstract state the properties talk about:              *)
(*    active   managers whose enter has returned and whose exit has not     *)
(*    exiting  the manager whose exit call is in progress (0 = none)        *)
(* Programs are data (JSON, produced by harness/progs.py); TLC explores     *)
(* every path of every program: branch outcomes are existential choices,    *)
(* manager behaviour (suspend in __aenter__/__aexit__, swallow) comes from  *)
(* the run mode and the manager id.                                         *)
(* Every event of a behaviour records the observation stackscope owes at    *)
(* that instant: act (= active) and ex (= exiting).                         *)
(***************************************************************************)
EXTENDS Naturals, Sequences, FiniteSets, TLC, Json, IOUtils

Progs == JsonDeserialize(IOEnv.WL_PROGS)
K == 5    \* choices consumed by c(); afterwards c() is False (as in the rendered program)

VARIABLES pid,      \* which program
          mse,      \* do async managers suspend inside __aenter__/__aexit__ ?
          ctrl,     \* continuation stack
          compl,    \* completion register: "normal" | "return" | "break" | "continue" | "raise"
          active, exiting,
          hist,     \* events so far (history; what the replay driver consumes)
          path      \* branch outcomes so far
vars == <<pid, mse, ctrl, compl, active, exiting, hist, path>>
progVars == <<ctrl, compl, active, exiting>>

Top == ctrl[Len(ctrl)]
Pop == SubSeq(ctrl, 1, Len(ctrl) - 1)
Push(s, x) == Append(s, x)
SeqF(b) == [t |-> "seq", body |-> b, i |-> 1]
Remove(s, m) == SelectSeq(s, LAMBDA x : x # m)
Swallows(m) == m % 3 = 0          \* managers 3, 6, ... return True from __exit__

\* an event, with the observation owed at that instant
Ev(e, m, w, act, ex) == [e |-> e, m |-> m, w |-> w, act |-> act, ex |-> ex]

Init == /\ pid \in 1..Len(Progs) /\ mse \in BOOLEAN
        /\ ctrl = << SeqF(Progs[pid].body) >>
        /\ compl = "normal" /\ active = <<>> /\ exiting = 0 /\ hist = <<>> /\ path = <<>>

(* an abrupt completion pops continuation frames until something handles it *)
Unwind ==
  /\ ctrl # <<>> /\ compl # "normal" /\ Top.t # "exiting"
  /\ LET f == Top IN
     CASE f.t = "seq" -> ctrl' = Pop /\ UNCHANGED <<compl, active, exiting, hist>>
       [] f.t = "entering" -> ctrl' = Pop /\ UNCHANGED <<compl, active, exiting, hist>>
       [] f.t = "wbody" ->
            /\ ctrl' = Push(Pop, [t |-> "exiting", m |-> f.m, async |-> f.async, pend |-> compl, ph |-> "call", xr |-> f.xr])
            /\ compl' = "normal" /\ UNCHANGED <<active, exiting, hist>>
       [] f.t = "try" ->
            IF f.ph = "body" /\ compl = "raise" /\ f.node.has_handler
            THEN /\ ctrl' = Push(Push(Pop, [f EXCEPT !.ph = "handler"]), SeqF(f.node.handler))
                 /\ compl' = "normal" /\ UNCHANGED <<active, exiting, hist>>
            ELSE IF f.node.has_final
            THEN /\ ctrl' = Push(Push(Pop, [t |-> "fin", pend |-> compl]), SeqF(f.node.final))
                 /\ compl' = "normal" /\ UNCHANGED <<active, exiting, hist>>
            ELSE ctrl' = Pop /\ UNCHANGED <<compl, active, exiting, hist>>
       [] f.t = "fin" -> ctrl' = Pop /\ UNCHANGED <<compl, active, exiting, hist>>   \* finally's own completion wins
       [] f.t = "loop" ->
            IF compl = "break" THEN ctrl' = Pop /\ compl' = "normal" /\ UNCHANGED <<active, exiting, hist>>
            ELSE IF compl = "continue" THEN ctrl' = ctrl /\ compl' = "normal" /\ UNCHANGED <<active, exiting, hist>>
            ELSE ctrl' = Pop /\ UNCHANGED <<compl, active, exiting, hist>>
  /\ UNCHANGED <<pid, mse, path>>

(* c(): a branch outcome *)
Choose(b) == IF Len(path) < K THEN b \in BOOLEAN /\ path' = Append(path, b) ELSE b = FALSE /\ path' = path

Stmt ==
  /\ ctrl # <<>> /\ compl = "normal" /\ Top.t = "seq"
  /\ LET f == Top IN
     IF f.i > Len(f.body) THEN ctrl' = Pop /\ UNCHANGED <<compl, active, exiting, hist, path>>
     ELSE LET s == f.body[f.i]  adv == Push(Pop, [f EXCEPT !.i = f.i + 1]) IN
       CASE s.k = "pass" -> /\ ctrl' = adv /\ hist' = Append(hist, Ev("probe", 0, "body", active, 0))
                            /\ UNCHANGED <<compl, active, exiting, path>>
         [] s.k = "susp" -> /\ ctrl' = adv /\ hist' = Append(hist, Ev("susp", 0, "body", active, 0))
                            /\ UNCHANGED <<compl, active, exiting, path>>
         [] s.k \in {"ret_k", "ret_v"} -> ctrl' = adv /\ compl' = "return" /\ UNCHANGED <<active, exiting, hist, path>>
         [] s.k = "raise" -> ctrl' = adv /\ compl' = "raise" /\ UNCHANGED <<active, exiting, hist, path>>
         [] s.k = "break" -> ctrl' = adv /\ compl' = "break" /\ UNCHANGED <<active, exiting, hist, path>>
         [] s.k = "continue" -> ctrl' = adv /\ compl' = "continue" /\ UNCHANGED <<active, exiting, hist, path>>
         [] s.k = "with" -> /\ ctrl' = Push(adv, [t |-> "entering", node |-> s, ph |-> "call"])
                            /\ UNCHANGED <<compl, active, exiting, hist, path>>
         [] s.k = "try" -> /\ ctrl' = Push(Push(adv, [t |-> "try", node |-> s, ph |-> "body"]), SeqF(s.body))
                           /\ UNCHANGED <<compl, active, exiting, hist, path>>
         [] s.k = "if" -> \E b \in BOOLEAN : /\ Choose(b)
                            /\ ctrl' = Push(adv, SeqF(IF b THEN s.body ELSE s.orelse))
                            /\ UNCHANGED <<compl, active, exiting, hist>>
         [] s.k \in {"for", "while"} -> /\ ctrl' = Push(adv, [t |-> "loop", node |-> s, it |-> 0])
                                        /\ UNCHANGED <<compl, active, exiting, hist, path>>
  /\ UNCHANGED <<pid, mse>>

(* __enter__ / __aenter__ : the manager is NOT listed while its enter is running.  A manager whose enter raises
   (node.enter_raises) never becomes active: the with statement completes abruptly *)
Entering ==
  /\ ctrl # <<>> /\ compl = "normal" /\ Top.t = "entering"
  /\ LET f == Top  s == f.node
         inBody == Push(Push(Pop, [t |-> "wbody", m |-> s.m, async |-> s.async, xr |-> s.exit_raises]), SeqF(s.body))
     IN
     IF f.ph = "call"
     THEN IF s.async /\ mse
          THEN /\ ctrl' = Push(Pop, [f EXCEPT !.ph = "ret"])
               /\ hist' = hist \o << Ev("enter", s.m, "enter", active, 0), Ev("susp", s.m, "enter", active, 0) >>
               /\ UNCHANGED <<active, compl>>
          ELSE IF s.enter_raises
          THEN /\ ctrl' = Pop /\ compl' = "raise" /\ UNCHANGED active
               /\ hist' = hist \o << Ev("enter", s.m, "enter", active, 0), Ev("enter_raised", s.m, "enter", active, 0) >>
          ELSE /\ ctrl' = inBody /\ active' = Append(active, s.m) /\ UNCHANGED compl
               /\ hist' = hist \o << Ev("enter", s.m, "enter", active, 0), Ev("entered", s.m, "enter", Append(active, s.m), 0) >>
     ELSE IF s.enter_raises
          THEN /\ ctrl' = Pop /\ compl' = "raise" /\ UNCHANGED active
               /\ hist' = Append(hist, Ev("enter_raised", s.m, "enter", active, 0))
          ELSE /\ ctrl' = inBody /\ active' = Append(active, s.m) /\ UNCHANGED compl
               /\ hist' = Append(hist, Ev("entered", s.m, "enter", Append(active, s.m), 0))
  /\ UNCHANGED <<pid, mse, exiting, path>>

BodyDone ==
  /\ ctrl # <<>> /\ compl = "normal" /\ Top.t = "wbody"
  /\ ctrl' = Push(Pop, [t |-> "exiting", m |-> Top.m, async |-> Top.async, pend |-> "normal", ph |-> "call", xr |-> Top.xr])
  /\ UNCHANGED <<pid, mse, compl, active, exiting, hist, path>>

(* __exit__ / __aexit__ : the manager is still listed, last, and exiting *)
Exiting ==
  /\ ctrl # <<>> /\ Top.t = "exiting" /\ compl = "normal"
  /\ LET f == Top IN
     IF f.ph = "call"
     THEN /\ exiting' = f.m
          /\ ctrl' = Push(Pop, [f EXCEPT !.ph = "ret"])
          /\ hist' = hist \o << Ev("exit", f.m, f.pend, active, f.m) >>
                          \o (IF f.async /\ mse THEN << Ev("susp", f.m, "exit", active, f.m) >> ELSE <<>>)
          /\ UNCHANGED <<active, compl>>
     ELSE /\ exiting' = 0 /\ active' = Remove(active, f.m)
          /\ hist' = Append(hist, Ev("exited", f.m, f.pend, Remove(active, f.m), 0))
          \* an exit method that raises replaces whatever was pending; otherwise True swallows a pending exception
          /\ compl' = IF f.xr THEN "raise" ELSE IF f.pend = "raise" /\ Swallows(f.m) THEN "normal" ELSE f.pend
          /\ ctrl' = Pop
  /\ UNCHANGED <<pid, mse, path>>

TryNormal ==
  /\ ctrl # <<>> /\ compl = "normal" /\ Top.t \in {"try", "fin"}
  /\ LET f == Top IN
     IF f.t = "fin" THEN ctrl' = Pop /\ compl' = f.pend
     ELSE IF f.ph = "body" /\ f.node.has_orelse
     THEN ctrl' = Push(Push(Pop, [f EXCEPT !.ph = "else"]), SeqF(f.node.orelse)) /\ compl' = compl
     ELSE IF f.node.has_final
     THEN ctrl' = Push(Push(Pop, [t |-> "fin", pend |-> "normal"]), SeqF(f.node.final)) /\ compl' = compl
     ELSE ctrl' = Pop /\ compl' = compl
  /\ UNCHANGED <<pid, mse, active, exiting, hist, path>>

Loop ==
  /\ ctrl # <<>> /\ compl = "normal" /\ Top.t = "loop"
  /\ LET f == Top IN
     IF f.node.k = "for"
     THEN /\ IF f.it < 2 THEN ctrl' = Push(Push(Pop, [f EXCEPT !.it = f.it + 1]), SeqF(f.node.body)) ELSE ctrl' = Pop
          /\ path' = path
     ELSE \E b \in BOOLEAN : /\ Choose(b)
                             /\ ctrl' = IF b THEN Push(ctrl, SeqF(f.node.body)) ELSE Pop
  /\ UNCHANGED <<pid, mse, compl, active, exiting, hist>>

(* C06: an extraction is a stuttering step of the program *)
Observe == UNCHANGED vars

Next == Unwind \/ Stmt \/ Entering \/ BodyDone \/ Exiting \/ TryNormal \/ Loop
Spec == Init /\ [][Next]_vars

---------------------------------------------------------------------------
(* the observation function of C01 / C02 *)
Obs == [act |-> active, ex |-> exiting]
(* C20's relaxation: referents mode may also list the manager being entered or exited *)

(* sanity properties of the semantics itself (they validate the model, not stackscope) *)
ExitingIsActive == exiting # 0 => \E i \in 1..Len(active) : active[i] = exiting
ExitingIsLast == exiting # 0 => active[Len(active)] = exiting
NoDuplicates == \A i, j \in 1..Len(active) : i # j => active[i] # active[j]
AllExitedAtEnd == ctrl = <<>> => (active = <<>> /\ exiting = 0)
ObserveIsStutter == [][Observe => UNCHANGED progVars]_vars

Done == ctrl = <<>>
Emit == Done => PrintT(<<"EMIT", ToJson([pid |-> pid, mse |-> mse, path |-> path, hist |-> hist, out |-> compl])>>)
Depth == Len(hist) <= 80
DepthEmit == Depth /\ Emit
=============================================================================
