----------------------------- MODULE FromThread -----------------------------
(***************************************************************************)
(* M8c for C14, last sentence: "a thread inside from_thread.run continues  *)
(* into the Trio task serving it, for any alternation depth" -- the case   *)
(* of FOREIGN threads (not started by Trio) that call                      *)
(*      trio.from_thread.run(afn, ..., trio_token=token)                    *)
(* Each call travels: the thread puts a message on Trio's entry queue and  *)
(* blocks ("queued"); when the Trio loop next runs, a SYSTEM TASK is        *)
(* spawned for it, runs afn and parks ("serving"); when afn returns the    *)
(* thread continues ("idle" again: it may call again -- a new message, a   *)
(* new task).  The loop cannot run while the Trio thread is stuck in       *)
(* synchronous code (busy).                                                *)
(*                                                                         *)
(* afn(d) alternates d times through to_thread.run_sync / re-entrant       *)
(* from_thread.run before it parks, like PingPong(d) of TaskTree.          *)
(*                                                                         *)
(* Expected extraction of thread t (observed from the Trio thread):        *)
(*   its own frames, and -- only while a task is serving ITS call -- after *)
(*   the from_thread.run frame the frames of THAT task: afn, then the      *)
(*   alternation t(d) s(d) ... t(0).  Never the frames of a task serving   *)
(*   another thread, of the main task, or of a task that served an earlier *)
(*   call.                                                                 *)
(***************************************************************************)
EXTENDS Naturals, Sequences, FiniteSets, TLC, Json

CONSTANTS Threads, MaxD, MaxSteps
VARIABLES st, d, calls, busy, acts, steps
vars == <<st, d, calls, busy, acts, steps>>

Init == /\ st = [t \in Threads |-> "idle"] /\ d = [t \in Threads |-> 0] /\ calls = [t \in Threads |-> 0]
        /\ busy = FALSE /\ acts = <<>> /\ steps = 0
Tick(a) == steps < MaxSteps /\ steps' = steps + 1 /\ acts' = Append(acts, a)
A(a, t, n) == [a |-> a, t |-> t, n |-> n, exp |-> <<>>]

\* with a free loop a message never stays queued across a driver step: Serve is forced before anything else
Pending == ~busy /\ \E t \in Threads : st[t] = "queued"
\* the thread makes a call of alternation depth n: a message is queued
Call(t, n) == /\ ~Pending /\ st[t] = "idle" /\ st' = [st EXCEPT ![t] = "queued"] /\ d' = [d EXCEPT ![t] = n]
              /\ calls' = [calls EXCEPT ![t] = @ + 1] /\ UNCHANGED busy /\ Tick(A("call", t, n))
\* the Trio thread gets stuck in / leaves synchronous code
Block == ~Pending /\ ~busy /\ busy' = TRUE /\ UNCHANGED <<st, d, calls>> /\ Tick(A("block", "-", 0))
\* leaving the synchronous code lets the loop run: EVERY queued message gets its task
Unblock == /\ busy /\ busy' = FALSE /\ st' = [t \in Threads |-> IF st[t] = "queued" THEN "serving" ELSE st[t]]
           /\ UNCHANGED <<d, calls>> /\ Tick(A("unblock", "-", 0))
\* with a free loop a queued message is served at once
Serve(t) == /\ ~busy /\ st[t] = "queued" /\ st' = [st EXCEPT ![t] = "serving"]
            /\ UNCHANGED <<d, calls, busy>> /\ Tick(A("serve", t, 0))
\* afn is released and returns; the thread's call returns
Finish(t) == /\ ~Pending /\ ~busy /\ st[t] = "serving" /\ st' = [st EXCEPT ![t] = "idle"]
             /\ UNCHANGED <<d, calls, busy>> /\ Tick(A("finish", t, 0))

PingPong(n) == [i \in 1..(2 * n + 1) |-> IF i % 2 = 1 THEN <<"t", n - (i - 1) \div 2>> ELSE <<"s", n - (i \div 2) + 1>>]
\* what must follow the thread's own frames
TaskTail(t) == IF st[t] = "serving" THEN <<<<"afn", calls[t]>>>> \o PingPong(d[t]) ELSE <<>>
Observe(t) == /\ ~Pending /\ UNCHANGED <<st, d, calls, busy>>
              /\ Tick([a |-> "observe", t |-> t, n |-> 0, exp |-> [state |-> st[t], call |-> calls[t], tail |-> TaskTail(t)]])

Next == \/ \E t \in Threads : (\E n \in 0..MaxD : Call(t, n)) \/ Serve(t) \/ Finish(t) \/ Observe(t)
        \/ Block \/ Unblock
Spec == Init /\ [][Next]_vars
View == <<st, d, busy>>

\* a task serves a thread only between that thread's call and its return; queued messages exist only while busy or pending
ServingImpliesCalled == \A t \in Threads : st[t] \in {"queued", "serving"} => calls[t] > 0
TailOnlyWhenServing == \A t \in Threads : (TaskTail(t) # <<>>) <=> st[t] = "serving"
Emit == (steps = MaxSteps) => PrintT(<<"EMIT", ToJson([acts |-> acts])>>)
=============================================================================
