--------------------------- MODULE ExtractIter ---------------------------
(***************************************************************************)
(* M1: the unwrap / elaborate work-list of stackscope._extract.extract_iter *)
(* (two deques with per-item depth and origin, the 100-step guard, the      *)
(* error list), written action by action after the code, together with the  *)
(* DOCUMENTED rules as a deque-free reference semantics (Ref).              *)
(*                                                                         *)
(* Hook tables are lazy: the result of unwrap_stackitem(w) / of            *)
(* elaborate_frame(f) is chosen the first time the algorithm asks for it    *)
(* and memoised (U, E); Ref is evaluated on the memoised tables completed   *)
(* with the default result.                                                 *)
(***************************************************************************)
EXTENDS Naturals, Sequences, FiniteSets, TLC

CONSTANTS NF, NW, NL,     \* how many frame ids / wrapper ids / leaf ids
          MaxLen,         \* longest hook result
          MaxLoops,       \* the guard: 100 in the code
          MaxFaults,      \* at most this many raising table entries are drawn
          UKinds,         \* subset of {"none","raise","one","seq","iter","iterfail"}
          EKinds,         \* subset of {"none","raise","replace","insert"}
          Cyclic,         \* TRUE: wrapper results may name any wrapper; FALSE: only later ones
          AllowNone,      \* TRUE: None may occur inside unwrap result sequences
          ETargetSet,     \* the items elaborate results may name
          MaxOut,         \* state constraint: frames yielded (an elaborate hook may regrow the stack for ever)
          CtxFaults,      \* TRUE: context analysis of a frame may raise (with_contexts)
          Fixed,          \* TRUE: insert branch as repaired (F6/F7); FALSE: as in the pinned tree
          Roots,          \* the items extraction may start from
          GenT,           \* wrapper ids that are generator-type objects (coroutine/generator/asyncgen)
          FixedF5,        \* TRUE: /repo after the repair of F5 (a frame keeps a generator-type origin only if it is that
                          \* object's OWN frame); FALSE: every frame produced underneath it inherited the origin
          NoWeak          \* item ids that are not weak-referenceable (frames never are)

Frames == 1..NF
Wraps  == (NF + 1)..(NF + NW)
Leaves == (NF + NW + 1)..(NF + NW + NL)
Items  == Frames \cup Wraps \cup Leaves
NoneItem == 0
NoneV == <<0>>            \* "None" where a sequence could also stand

VARIABLES U, E, C,        \* memoised hook tables (partial functions): unwrap, elaborate, ctx fault
          root,
          toU,            \* to_unwrap : Seq of [x, d, o, w]  (w: x is an already built Frame whose origin is o)
          toE,            \* to_elaborate : Seq of [x, d, o]
          loops,          \* loops_since_progress
          errors,         \* save_errors, as fault tags
          out,            \* frames yielded so far: Seq of [f, o, unhid]
          leaf,           \* NoneV, or Seq of items
          pc,             \* "unwrap" | "elab" | "done" | "escaped"
          faults          \* raising entries drawn so far
vars == <<U, E, C, root, toU, toE, loops, errors, out, leaf, pc, faults>>

---------------------------------------------------------------------------
(* small helpers *)
RECURSIVE SeqsUpTo(_, _)
SeqsUpTo(S, n) == IF n = 0 THEN {<<>>}
                  ELSE LET shorter == SeqsUpTo(S, n - 1) IN
                       shorter \cup {Append(s, a) : s \in {t \in shorter : Len(t) = n - 1}, a \in S}
Last(s) == s[Len(s)]
Front(s) == SubSeq(s, 1, Len(s) - 1)
Rev(s) == [i \in 1..Len(s) |-> s[Len(s) - i + 1]]

UTargets(w) == Frames \cup Leaves \cup (IF Cyclic THEN Wraps ELSE {v \in Wraps : v > w})
                      \cup (IF AllowNone THEN {NoneItem} ELSE {})
ETargets(f) == ETargetSet

\* generator-type objects are unwrapped by stackscope's own glue, whose results have a fixed shape:
\* finished -> (None, None); suspended -> (own frame, awaited object); running -> a StackSlice that yields the
\* own frame followed by the frames it is currently calling.  Wrapper NF+i owns frame i.
Own(w) == w - NF
GenRes(w) == {[k |-> "seq", xs |-> <<NoneItem, NoneItem>>]}
        \cup {[k |-> "seq", xs |-> <<Own(w), x>>] : x \in (UTargets(w) \ {Own(w)}) \cup {NoneItem}}
        \cup {[k |-> "iter", xs |-> <<Own(w), f>>] : f \in Frames \ {Own(w)}}
URes(w) == IF w \in GenT THEN GenRes(w) ELSE
     (IF "none" \in UKinds THEN {[k |-> "none", xs |-> <<>>]} ELSE {})
\cup (IF "raise" \in UKinds THEN {[k |-> "raise", xs |-> <<>>]} ELSE {})
\cup (IF "one" \in UKinds THEN {[k |-> "one", xs |-> <<a>>] : a \in UTargets(w) \ {NoneItem}} ELSE {})
\cup UNION {IF kk \in UKinds THEN {[k |-> kk, xs |-> s] : s \in SeqsUpTo(UTargets(w), MaxLen)} ELSE {}
            : kk \in {"seq", "iter", "iterfail"}}

ERes(f) ==
     (IF "none" \in EKinds THEN {[k |-> "none", xs |-> <<>>]} ELSE {})
\cup (IF "raise" \in EKinds THEN {[k |-> "raise", xs |-> <<>>]} ELSE {})
\cup (IF "replace" \in EKinds THEN {[k |-> "replace", xs |-> s] : s \in SeqsUpTo(ETargets(f), MaxLen)} ELSE {})
\cup (IF "insert" \in EKinds THEN {[k |-> "insert", xs |-> s] : s \in SeqsUpTo(ETargets(f), MaxLen)} ELSE {})
\* "insert": the hook returns xs followed by next_inner (whatever that is, possibly None)

IsFault(r) == r.k \in {"raise", "iterfail"}

\* better_origin(candidate, fallback) of _extract.py
Weak(x) == x \in Items /\ x \notin Frames /\ x \notin NoWeak
BetterOrigin(c, fb) == IF ~Weak(c) THEN fb
                       ELSE IF c \in GenT \/ fb \notin GenT THEN c ELSE fb

---------------------------------------------------------------------------
(* Reference semantics: the documented rules, without deques.             *)
(* A flattened entry is <<item, depth>>.                                    *)
UDefault == [k |-> "none", xs |-> <<>>]
EDefault == [k |-> "none", xs |-> <<>>]
UFull == [w \in Wraps |-> IF w \in DOMAIN U THEN U[w] ELSE UDefault]
EFull == [f \in Frames |-> IF f \in DOMAIN E THEN E[f] ELSE EDefault]

RECURSIVE Flat(_, _, _), FlatSeq(_, _, _)
Flat(u, x, d) == IF x \notin Wraps THEN << <<x, d>> >>
                 ELSE IF u[x].k \in {"none", "raise"} THEN << <<x, d>> >>
                 ELSE FlatSeq(u, u[x].xs, d + 1)
FlatSeq(u, xs, d) == IF xs = <<>> THEN <<>>
                     ELSE IF Head(xs) = NoneItem THEN FlatSeq(u, Tail(xs), d)
                     ELSE Flat(u, Head(xs), d) \o FlatSeq(u, Tail(xs), d)

Min2(a, b) == IF a <= b THEN a ELSE b
\* the remainder after an insertion: its first entry is no deeper than the inserted items
LowerHead(rest, d) == IF rest = <<>> THEN <<>> ELSE << <<rest[1][1], Min2(rest[1][2], d)>> >> \o Tail(rest)
RECURSIVE DropGE(_, _)
DropGE(s, d) == IF s = <<>> THEN <<>> ELSE IF s[1][2] >= d THEN DropGE(Tail(s), d) ELSE s
ItemsOf(s) == [i \in 1..Len(s) |-> s[i][1]]

\* Is a "replace" result in fact an insertion?  (it ends with the very object that is next_inner;
\* only a non-frame next_inner can be named by a table entry, a Frame object only via the hook argument)
EndsWithNextInner(r, rest) == /\ r.xs # <<>> /\ rest # <<>>
                              /\ rest[1][1] \notin Frames /\ Last(r.xs) = rest[1][1]

RECURSIVE Proc(_, _, _, _)
Proc(u, e, lst, fuel) ==
  IF lst = <<>> THEN <<<<>>, NoneV>>
  ELSE IF lst[1][1] \notin Frames
       THEN <<<<>>, ItemsOf(lst)>>
  ELSE IF fuel = 0 THEN <<<<99>>, NoneV>>
  ELSE LET f == lst[1][1]  d == lst[1][2]  rest == Tail(lst)  r == e[f]
           new == CASE r.k = "none" -> rest
                    [] r.k = "raise" -> DropGE(rest, d)
                    [] r.k = "insert" -> FlatSeq(u, r.xs, d) \o LowerHead(rest, d)
                    [] r.k = "replace" ->
                         IF EndsWithNextInner(r, rest)
                         THEN FlatSeq(u, Front(r.xs), d) \o LowerHead(rest, d)
                         ELSE FlatSeq(u, r.xs, d) \o DropGE(rest, d)
           sub == Proc(u, e, new, fuel - 1)
       IN <<<<f>> \o sub[1], sub[2]>>

Fuel == MaxOut + 4
RefOn(u, e, x) == Proc(u, e, Flat(u, x, 0), Fuel)
Ref(x) == RefOn(UFull, EFull, x)
RefFrames(x) == Ref(x)[1]

---------------------------------------------------------------------------
InitWith(r0) ==
        /\ U = <<>> /\ E = <<>> /\ C = <<>>
        /\ root = r0
        /\ toU = << [x |-> root, d |-> 0, o |-> BetterOrigin(root, NoneItem), w |-> FALSE] >>
        /\ toE = <<>> /\ loops = 0 /\ errors = <<>> /\ out = <<>> /\ leaf = NoneV
        /\ pc = "unwrap" /\ faults = 0
Init == \E r0 \in Roots : InitWith(r0)

RECURSIVE DropQ(_, _)
DropQ(s, d) == IF s = <<>> THEN <<>> ELSE IF s[1].d >= d THEN DropQ(Tail(s), d) ELSE s

Irreducible(h) == toE' = Append(toE, [x |-> h.x, d |-> h.d, o |-> NoneItem]) /\ toU' = Tail(toU) /\ loops' = 0

(* lines 123-138: a frame (raw or already wrapped) moves to the elaboration queue *)
\* isOwn: the popped frame is the own frame of the generator-type object recorded as its origin (own_frame() of
\* _extract.py); in the model wrapper NF+i owns frame i, in validated traces the recorder supplies the ground truth
PopFrameWith(isOwn) ==
  /\ pc = "unwrap" /\ toU # <<>> /\ Head(toU).x \in Frames
  /\ LET h == Head(toU)
         org == IF h.w THEN h.o ELSE IF h.o \in GenT /\ (FixedF5 => isOwn) THEN h.o ELSE NoneItem
     IN toE' = Append(toE, [x |-> h.x, d |-> h.d, o |-> org])
  /\ toU' = Tail(toU) /\ loops' = 0
  /\ UNCHANGED <<U, E, C, root, errors, out, leaf, pc, faults>>
PopFrame == /\ pc = "unwrap" /\ toU # <<>>
            /\ PopFrameWith(Head(toU).o \in GenT /\ Own(Head(toU).o) = Head(toU).x)

(* lines 139-177: one call of unwrap_stackitem and what follows from it *)
UnwrapWith(r) ==
  /\ pc = "unwrap" /\ toU # <<>> /\ Head(toU).x \notin Frames
  /\ LET h == Head(toU) IN
     IF h.x \notin Wraps
     THEN \* leaves and None: the default hook returns None
          /\ r = UDefault
          /\ Irreducible(h) /\ UNCHANGED <<U, errors, faults>>
     ELSE /\ (h.x \in DOMAIN U) => (r = U[h.x])          \* hooks are functions of the item
          /\ (h.x \notin DOMAIN U /\ IsFault(r)) => faults < MaxFaults
          /\ faults' = IF h.x \notin DOMAIN U /\ IsFault(r) THEN faults + 1 ELSE faults
          /\ U' = (IF h.x \in DOMAIN U THEN U ELSE U @@ (h.x :> r))
          /\ CASE r.k = "raise" -> Irreducible(h) /\ errors' = Append(errors, <<"unwrap", h.x>>)
               [] r.k = "none" -> Irreducible(h) /\ errors' = errors
               [] OTHER ->
                    IF loops + 1 > MaxLoops
                    THEN Irreducible(h) /\ errors' = Append(errors, <<"guard", h.x>>)
                    ELSE /\ loops' = loops + 1
                         /\ errors' = IF r.k = "iterfail" THEN Append(errors, <<"iter", h.x>>) ELSE errors
                         /\ LET keep == SelectSeq(r.xs, LAMBDA a : a # NoneItem)
                                pushed == [i \in 1..Len(keep) |->
                                            [x |-> keep[i], d |-> h.d + 1, o |-> BetterOrigin(keep[i], h.o), w |-> FALSE]]
                            IN toU' = pushed \o Tail(toU)
                         /\ toE' = toE
  /\ UNCHANGED <<E, C, root, out, leaf, pc>>

Unwrap == \E r \in (IF toU = <<>> \/ Head(toU).x \notin Wraps THEN {UDefault}
                     ELSE IF Head(toU).x \in DOMAIN U THEN {U[Head(toU).x]} ELSE URes(Head(toU).x)) : UnwrapWith(r)

(* the inner while ends only when to_unwrap is empty (observation O1) *)
ToElab == /\ pc = "unwrap" /\ toU = <<>> /\ pc' = "elab"
          /\ loops' = 0        \* the counter restarts with every pass of the outer loop (line 119)
          /\ UNCHANGED <<U, E, C, root, toU, toE, errors, out, leaf, faults>>

(* lines 179-187 *)
ReachLeaf ==
  /\ pc = "elab" /\ (IF toE = <<>> THEN TRUE ELSE Head(toE).x \notin Frames)
  /\ leaf' = IF toE = <<>> THEN NoneV ELSE [i \in 1..Len(toE) |-> toE[i].x]
  /\ pc' = "done"
  /\ UNCHANGED <<U, E, C, root, toU, toE, loops, errors, out, faults>>

(* lines 189-244: contexts, elaborate_frame, yield, and the edit of the remainder *)
ElabWith(cf, r) ==       \* cf: number of errors raised by context analysis / fill_context for this frame
  /\ pc = "elab" /\ toE # <<>> /\ Head(toE).x \in Frames
  /\ LET h == Head(toE)  f == h.x  d == h.d  rest == Tail(toE)
         hasNext == rest # <<>>
     IN
       LET newE == f \notin DOMAIN E /\ IsFault(r)
           newC == f \notin DOMAIN C /\ cf > 0
           nf == (IF newE THEN 1 ELSE 0) + (IF newC THEN 1 ELSE 0)
       IN
       /\ (f \in DOMAIN E) => (r = E[f])
       /\ (f \in DOMAIN C) => (cf = C[f])
       /\ faults + nf <= MaxFaults
       /\ faults' = faults + nf
       /\ E' = (IF f \in DOMAIN E THEN E ELSE E @@ (f :> r))
       /\ C' = (IF f \notin DOMAIN C THEN C @@ (f :> cf) ELSE C)
       /\ errors' = errors \o [i \in 1..cf |-> <<"ctx", f>>]
                       \o (IF r.k = "raise" THEN << <<"elab", f>> >> ELSE <<>>)
       /\ out' = Append(out, [f |-> f, o |-> h.o, unhid |-> (r.k = "raise")])
       /\ leaf' = leaf /\ loops' = loops
       /\ IF r.k = "none"
          THEN toE' = rest /\ toU' = toU /\ pc' = "elab"
          ELSE LET q == [i \in 1..Len(rest) |-> [x |-> rest[i].x, d |-> rest[i].d, o |-> rest[i].o,
                                                 w |-> (rest[i].x \in Frames)]] \o toU
                   xs == IF r.k = "raise" THEN <<>> ELSE r.xs
                   mk(a) == [x |-> a, d |-> d, o |-> BetterOrigin(a, NoneItem), w |-> FALSE]
                   pushAll(s) == [i \in 1..Len(s) |-> mk(s[i])]
                   isInsert == \/ r.k = "insert"
                               \/ (r.k = "replace" /\ xs # <<>> /\ hasNext
                                   /\ rest[1].x \notin Frames /\ Last(xs) = rest[1].x)
                   others == IF r.k = "insert" THEN xs ELSE Front(xs)
               IN /\ toE' = <<>>
                  /\ IF ~isInsert
                     THEN toU' = pushAll(xs) \o DropQ(q, d) /\ pc' = "unwrap"
                     ELSE IF Fixed
                     THEN \* repaired: next_inner stays queued; it is made no deeper than the inserted items (so that a
                          \* frame found inside them cannot prune it) and never deeper than it was
                          /\ toU' = pushAll(others) \o (IF q = <<>> THEN <<>> ELSE <<[q[1] EXCEPT !.d = Min2(q[1].d, d)]>> \o Tail(q))
                          /\ pc' = "unwrap"
                     ELSE IF q = <<>>
                     THEN toU' = toU /\ pc' = "escaped"        \* IndexError: pop from an empty deque (F6)
                     ELSE \* next_inner is popped and pushed again at THIS frame's depth (F7)
                          LET ni == [q[1] EXCEPT !.d = d] IN
                          toU' = pushAll(others) \o <<ni>> \o Tail(q) /\ pc' = "unwrap"
  /\ UNCHANGED <<U, root>>

Elab == \E cf \in (IF ~CtxFaults THEN {0} ELSE {0, 1}) :
        \E r \in (IF toE = <<>> \/ Head(toE).x \notin Frames THEN {EDefault}
                  ELSE IF Head(toE).x \in DOMAIN E THEN {E[Head(toE).x]} ELSE ERes(Head(toE).x)) : ElabWith(cf, r)

Next == PopFrame \/ Unwrap \/ ToElab \/ ReachLeaf \/ Elab
Spec == Init /\ [][Next]_vars
FairSpec == Spec /\ WF_vars(Next)

---------------------------------------------------------------------------
(* Properties *)
OutFrames == [i \in 1..Len(out) |-> out[i].f]

NeverEscapes == pc # "escaped"                                    \* C05 / F6
EquivRef == pc = "done" => <<OutFrames, leaf>> = Ref(root)         \* C10 (F7)

\* the same on tables where the guard cannot trip and the reference terminates (no raise/guard errors of
\* kind "guard": cyclic unwrap tables have no finite flattening)
EquivRefBounded == (pc = "done" /\ \A i \in 1..Len(errors) : errors[i][1] # "guard")
                      => <<OutFrames, leaf>> = Ref(root)

\* C05: a frame whose own elaborate hook raised is still present and un-hidden;
\* errors hold exactly one tag per fault that occurred (by construction of the actions; bound by replay)
ElabFaultKept == \A i \in 1..Len(errors) : errors[i][1] = "elab" =>
                    \E j \in 1..Len(out) : out[j].f = errors[i][2] /\ out[j].unhid

\* C05 "every frame outward of the failure is still present": the frames yielded, cut after the first frame
\* whose own elaborate hook raised (its callees are pruned), are a prefix of the frames of the fault-free
\* sibling tables (u0, e0: the same tables with every raising entry replaced by a non-raising one).
\* Faults in unwrap / iterator steps / context analysis do not cut: the failing item becomes irreducible and
\* everything after it ends up in the leaf list, so all yielded frames lie outward of it.
FirstElabFault == IF \E j \in 1..Len(out) : out[j].unhid
                  THEN CHOOSE j \in 1..Len(out) : out[j].unhid /\ \A i \in 1..(j - 1) : ~out[i].unhid
                  ELSE Len(out)
IsPrefix(a, b) == Len(a) <= Len(b) /\ SubSeq(b, 1, Len(a)) = a
OutwardKeptOn(u0, e0) == IsPrefix(SubSeq(OutFrames, 1, FirstElabFault), RefOn(u0, e0, root)[1])

\* every raising table entry that was consulted left (at least) one error, and nothing else did
FaultsAllRecorded ==
   /\ \A w \in DOMAIN U : U[w].k = "raise" => \E i \in 1..Len(errors) : errors[i] = <<"unwrap", w>>
   /\ \A w \in DOMAIN U : U[w].k = "iterfail" =>
          (\E i \in 1..Len(errors) : errors[i] = <<"iter", w>>) \/ (\E i \in 1..Len(errors) : errors[i] = <<"guard", w>>)
   /\ \A f \in DOMAIN E : E[f].k = "raise" => \E i \in 1..Len(errors) : errors[i] = <<"elab", f>>
   /\ \A f \in DOMAIN C : C[f] > 0 => \E i \in 1..Len(errors) : errors[i] = <<"ctx", f>>
   /\ \A i \in 1..Len(errors) :
          CASE errors[i][1] = "unwrap" -> U[errors[i][2]].k = "raise"
            [] errors[i][1] = "iter" -> U[errors[i][2]].k = "iterfail"
            [] errors[i][1] = "elab" -> E[errors[i][2]].k = "raise"
            [] errors[i][1] = "ctx" -> C[errors[i][2]] > 0
            [] OTHER -> TRUE

\* C10: the guard only trips after MaxLoops consecutive productive unwraps, and tripping is recorded
GuardRecorded == \A i \in 1..Len(errors) : errors[i][1] = "guard" => errors[i][2] \in Wraps
\* after the guard has tripped on an item, that same item is not unwrapped productively again (else the
\* extraction can go on for ever: finding F12)
OneGuardTripEnds == Cardinality({i \in 1..Len(errors) : errors[i][1] = "guard"}) <= 1
Terminates == <>(pc \in {"done", "escaped"})

\* C16: origin contract on the model
FirstFrameOf(o) == LET fr == RefFrames(o) IN IF fr = <<>> THEN 0 ELSE fr[1]
OriginContract == pc = "done" =>
    \A i \in 1..Len(out) : out[i].o # NoneItem =>
        /\ Weak(out[i].o) /\ out[i].o \in GenT
        /\ FirstFrameOf(out[i].o) = out[i].f
\* F5 excuse: the frame is not the first one produced underneath its generator-type origin
InheritedOrigin(i) == \E j \in 1..(i - 1) : out[j].o = out[i].o
OriginContractX == pc = "done" =>
    \A i \in 1..Len(out) : (out[i].o # NoneItem /\ ~InheritedOrigin(i)) =>
        /\ Weak(out[i].o) /\ out[i].o \in GenT
        /\ FirstFrameOf(out[i].o) = out[i].f
OutermostIsFirst == (Len(out) >= 1 /\ RefFrames(root) # <<>> /\ pc \in {"done"}) => out[1].f = RefFrames(root)[1]

\* state constraint for the exhaustive configs (an elaborate hook that keeps re-creating frames never ends)
Bound == Len(out) <= MaxOut /\ Len(toU) <= 10 /\ Len(toE) <= 10

\* the terminal-state export used by the replay driver (pattern R)
TableSeq(t, dom) == [i \in 1..Cardinality(dom) |->
                       LET x == CHOOSE y \in dom : Cardinality({z \in dom : z < y}) = i - 1 IN
                       [id |-> x, k |-> t[x].k, xs |-> t[x].xs]]
=============================================================================
