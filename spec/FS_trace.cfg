\* pattern T for C07: recorded free-running inspect_frame calls (FS_TRACES=<json file>)
SPECIFICATION TSpec
CONSTANTS
  MaxAttempts = 10
  MaxIter = 2
  CheckReadAtomic = TRUE
  HeaderGuard = TRUE
  HD = 1
CONSTRAINT Progress
CHECK_DEADLOCK FALSE
