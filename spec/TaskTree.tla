------------------------------ MODULE TaskTree ------------------------------
(***************************************************************************)
(* M8 (Trio task trees) for C14.                                            *)
(* Tasks t \in 1..MaxTasks (1 is the root).  Every task is an interpreter   *)
(* that obeys commands; its state:                                          *)
(*   nurs[t]   the nurseries it has open, outermost first; a nursery is a   *)
(*             record [id, ending, kids]  (ending: how the source of the    *)
(*             `async with` body ends: "plain" | "tryexc" | "tryfin" |      *)
(*             "condret" | "acm": the nursery is opened inside a stdlib     *)
(*             @asynccontextmanager generator, the open_service() idiom;   *)
(*             "wrap": the nursery manager is wrapped by an async manager  *)
(*             with a registered unwrap_context hook;                      *)
(*             kids: child tasks in start order)                           *)
(*   where[t]  "body"   waiting for a command inside its innermost nursery  *)
(*                      body (or at top level if it has none)               *)
(*             "aexit"  it has left the body of its innermost nursery,      *)
(*                      which still has children: blocked in __aexit__      *)
(*             "dead"   finished                                            *)
(*             "none"   not created                                         *)
(* The state IS the expected extraction of the root with                    *)
(* recurse_child_tasks=True: each open nursery of a task appears once, in   *)
(* nesting order, its children are exactly kids, recursively.               *)
(***************************************************************************)
EXTENDS Naturals, Sequences, FiniteSets, TLC, Json

CONSTANTS MaxTasks, MaxNest, MaxSteps,
          Endings,    \* subset of {"plain", "tryexc", "tryfin", "condret"}
          Starts,     \* TRUE: children may also be started with `await nursery.start(fn)` (StartPending / Started)
          Portals     \* TRUE: tasks may call greenback.ensure_portal(); from then on they wait for commands in a
                      \* SYNCHRONOUS function through greenback.await_ (their async frames, nursery blocks included,
                      \* then sit on a suspended greenlet's stack).  The expected tree does not depend on it.

VARIABLES nurs, where, nextN, gb, acts, steps
vars == <<nurs, where, nextN, gb, acts, steps>>
Tasks == 1..MaxTasks

Init == /\ nurs = [t \in Tasks |-> <<>>]
        /\ where = [t \in Tasks |-> IF t = 1 THEN "body" ELSE "none"]
        /\ nextN = 1 /\ gb = [t \in Tasks |-> FALSE] /\ acts = <<>> /\ steps = 0

Tick(a) == steps < MaxSteps /\ steps' = steps + 1 /\ acts' = Append(acts, a)
Last(s) == s[Len(s)]
Front(s) == SubSeq(s, 1, Len(s) - 1)
Act(a, t, x, e) == [a |-> a, t |-> t, x |-> x, e |-> e]

(* task t opens a nursery whose body ends the way `e` says *)
Open(t, e) ==
  /\ where[t] = "body" /\ Len(nurs[t]) < MaxNest
  /\ nurs' = [nurs EXCEPT ![t] = Append(@, [id |-> nextN, ending |-> e, kids |-> <<>>])]
  /\ nextN' = nextN + 1 /\ UNCHANGED <<where, gb>>
  /\ Tick(Act("open", t, nextN, e))

(* task t starts child c in its innermost nursery *)
Spawn(t, c) ==
  /\ where[t] = "body" /\ nurs[t] # <<>> /\ where[c] = "none"
  /\ \A c2 \in Tasks : where[c2] = "none" => c <= c2            \* ids in creation order
  /\ nurs' = [nurs EXCEPT ![t] = [@ EXCEPT ![Len(@)] = [@ EXCEPT !.kids = Append(@, c)]]]
  /\ where' = [where EXCEPT ![c] = "body"] /\ UNCHANGED <<nextN, gb>>
  /\ Tick(Act("spawn", t, c, "-"))

(* task t starts child c through `await nursery.start(fn)`: until fn calls task_status.started() the child lives in a
   nursery that Trio opens INSIDE Nursery.start, on t's own stack, and t is blocked in that nursery's __aexit__ *)
Pending(c) == \E t \in Tasks : \E i \in 1..Len(nurs[t]) : nurs[t][i].ending = "start" /\ \E j \in 1..Len(nurs[t][i].kids) : nurs[t][i].kids[j] = c
StartPending(t, c) ==
  /\ Starts /\ where[t] = "body" /\ nurs[t] # <<>> /\ Len(nurs[t]) < MaxNest + 1 /\ where[c] = "none"
  /\ \A c2 \in Tasks : where[c2] = "none" => c <= c2
  /\ nurs' = [nurs EXCEPT ![t] = Append(@, [id |-> nextN, ending |-> "start", kids |-> <<c>>])]
  /\ where' = [where EXCEPT ![t] = "aexit", ![c] = "body"]
  /\ nextN' = nextN + 1 /\ UNCHANGED gb
  /\ Tick(Act("start", t, c, ToString(nextN)))
(* the pending child calls task_status.started(): it moves to the nursery it was started into, Trio's inner nursery
   closes and t goes on in the body *)
Started(c) ==
  /\ where[c] = "body" /\ Pending(c)
  /\ LET p == CHOOSE t \in Tasks : nurs[t] # <<>> /\ Last(nurs[t]).ending = "start" /\ Last(nurs[t]).kids = <<c>>
         f == Front(nurs[p])
     IN /\ nurs' = [nurs EXCEPT ![p] = [f EXCEPT ![Len(f)] = [@ EXCEPT !.kids = Append(@, c)]]]
        /\ where' = [where EXCEPT ![p] = "body"]
  /\ UNCHANGED <<nextN, gb>>
  /\ Tick(Act("started", c, 0, "-"))

(* task t leaves the body of its innermost nursery: blocks in __aexit__ while children live, else the nursery closes *)
Leave(t) ==
  /\ where[t] = "body" /\ nurs[t] # <<>>
  /\ IF Last(nurs[t]).kids # <<>>
     THEN where' = [where EXCEPT ![t] = "aexit"] /\ UNCHANGED nurs
     ELSE nurs' = [nurs EXCEPT ![t] = Front(@)] /\ UNCHANGED where
  /\ UNCHANGED <<nextN, gb>>
  /\ Tick(Act("leave", t, 0, "-"))

(* a task without open nurseries finishes; its parent's nursery forgets it; a parent blocked in that nursery's
   __aexit__ with no children left resumes in the enclosing body *)
ParentOf(c) == CHOOSE t \in Tasks : \E i \in 1..Len(nurs[t]) : \E j \in 1..Len(nurs[t][i].kids) : nurs[t][i].kids[j] = c
Finish(c) ==
  /\ c # 1 /\ where[c] = "body" /\ nurs[c] = <<>> /\ ~Pending(c)      \* (returning without started() is an error in Trio)
  /\ LET p == ParentOf(c)
         ns == [i \in 1..Len(nurs[p]) |-> [nurs[p][i] EXCEPT !.kids = SelectSeq(@, LAMBDA k : k # c)]]
         unblocked == where[p] = "aexit" /\ Last(ns).kids = <<>>
     IN /\ nurs' = [nurs EXCEPT ![p] = IF unblocked THEN Front(ns) ELSE ns]
        /\ where' = [where EXCEPT ![c] = "dead", ![p] = IF unblocked THEN "body" ELSE @]
  /\ UNCHANGED <<nextN, gb>>
  /\ Tick(Act("finish", c, 0, "-"))

(* task t installs a greenback portal and from now on waits for commands through the await_ bridge *)
Ensure(t) ==
  /\ Portals /\ where[t] = "body" /\ ~gb[t]
  /\ gb' = [gb EXCEPT ![t] = TRUE] /\ UNCHANGED <<nurs, where, nextN>>
  /\ Tick(Act("ensure", t, 0, "-"))

\* the expected extraction: the tree below the root
RECURSIVE TreeOf(_, _)
TreeOf(t, fuel) == [task |-> t, where |-> where[t], gb |-> gb[t],
                    nurseries |-> [i \in 1..Len(nurs[t]) |->
                        [id |-> nurs[t][i].id, ending |-> nurs[t][i].ending,
                         kids |-> IF fuel = 0 THEN <<>> ELSE [j \in 1..Len(nurs[t][i].kids) |-> TreeOf(nurs[t][i].kids[j], fuel - 1)]]]]

(* extract(root, recurse_child_tasks=True) -- a stuttering step of the tree *)
Observe == /\ UNCHANGED <<nurs, where, nextN, gb>>
           /\ Tick([a |-> "observe", t |-> 1, x |-> 0, e |-> "-", tree |-> TreeOf(1, MaxTasks)])

Struct(t) == (\E e \in Endings : Open(t, e)) \/ (\E c \in Tasks : Spawn(t, c) \/ StartPending(t, c)) \/ Leave(t) \/ Finish(t)
             \/ Ensure(t) \/ Started(t)
Next == (\E t \in Tasks : Struct(t)) \/ Observe
Spec == Init /\ [][Next]_vars
\* export variant: alternate a structural action with an observation
NextAlt == \/ (steps % 2 = 0 /\ \E t \in Tasks : Struct(t))
           \/ (steps % 2 = 1 /\ Observe)
SpecAlt == Init /\ [][NextAlt]_vars

---------------------------------------------------------------------------
Live(t) == where[t] \in {"body", "aexit"}
\* every live non-root task is the child of exactly one open nursery of a live task; children are live
TreeShape == /\ \A c \in Tasks : (Live(c) /\ c # 1) =>
                   Cardinality({<<t, i>> \in Tasks \X (1..(MaxNest + 1)) : i <= Len(nurs[t]) /\ \E j \in 1..Len(nurs[t][i].kids) : nurs[t][i].kids[j] = c}) = 1
             /\ \A t \in Tasks : \A i \in 1..Len(nurs[t]) : \A j \in 1..Len(nurs[t][i].kids) : Live(nurs[t][i].kids[j])
             /\ \A t \in Tasks : (nurs[t] # <<>>) => Live(t)
\* only the innermost nursery can be the one being exited
AexitHasKids == \A t \in Tasks : where[t] = "aexit" => (nurs[t] # <<>> /\ Last(nurs[t]).kids # <<>>)
View == <<nurs, where, gb>>

\* to_thread / from_thread ping-pong of depth d: the stack of the task continues through the worker thread's frames and
\* back into the Trio task serving it:  t(d) s(d) t(d-1) ... s(1) t(0)
PingPong(d) == [i \in 1..(2 * d + 1) |-> IF i % 2 = 1 THEN <<"t", d - (i - 1) \div 2>> ELSE <<"s", d - (i \div 2) + 1>>]
Emit == (steps = MaxSteps) => PrintT(<<"EMIT", ToJson([acts |-> acts, pingpong |-> [d \in 1..3 |-> PingPong(d - 1)]])>>)
=============================================================================
