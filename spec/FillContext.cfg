\* C11: hook tables given by the harness (FC_GIVEN=<json>), real guard value
SPECIFICATION Spec
CONSTANT MaxLoops = 100
INVARIANT CallPattern
INVARIANT ResetBeforeReelab
INVARIANT PruneStops
INVARIANT GuardBound
CONSTRAINT Emit
CHECK_DEADLOCK FALSE
