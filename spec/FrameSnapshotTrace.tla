------------------------ MODULE FrameSnapshotTrace ------------------------
(***************************************************************************)
(* Pattern T for M5 (C07): FREE-RUNNING executions of the real             *)
(* inspect_frame (3.11+) against a target thread that never stops, recorded *)
(* through the guarded probes H3.  The probe sink logs, for every event,    *)
(* the target's f_lasti AT THAT MOMENT (`seen`): the re-check that follows  *)
(* each probe in the code reads the same value, because no GIL hand-over    *)
(* can happen between the sink's return and the assert.                     *)
(*                                                                         *)
(* The target is not modelled step by step here: its progress between two  *)
(* events is one silent move to the position the next event saw (See).     *)
(* What is validated is the INSPECTOR: every recorded call must be a run   *)
(* of FrameSnapshot's inspector automaton                                   *)
(*    start -> deref -> header -> check* -> final -> end / retry            *)
(* under those observations:                                               *)
(*  - after an event that saw the target at another position than          *)
(*    lasti_before, nothing but a retry may follow (no slot is read, no     *)
(*    snapshot is returned);                                                *)
(*  - slots are re-checked one by one, in order, exactly stack_len of them; *)
(*  - an executing frame (saved stacktop unknown) is trimmed to the handler *)
(*    depth of THIS attempt's lasti_before, taken from CPython's own        *)
(*    exception table (Tr.hd, computed by the harness with the dis module); *)
(*  - a snapshot is returned only after a final re-check that saw           *)
(*    lasti_before, and has exactly the announced length; the blocks        *)
(*    returned with it are the handler chain of that same lasti_before;     *)
(*  - at most MaxAttempts attempts; giving up only after the last one.      *)
(* Batched: tid picks a trace; the verdict of each is a field of its EMIT.  *)
(***************************************************************************)
EXTENDS FrameSnapshot, Json, IOUtils

Traces == JsonDeserialize(IOEnv.FS_TRACES)
VARIABLES tid, l, verdict
tvars == <<vars, tid, l, verdict>>
Tr == Traces[tid]
Ev == Tr.events[l]
More == l <= Len(Tr.events) /\ verdict = "ok"
\* handler depth at a code position, from CPython's exception table (-1: the harness did not supply it)
HDT(p) == LET m == {k \in 1..Len(Tr.hd) : Tr.hd[k][1] = p} IN IF m = {} THEN 0 - 1 ELSE Tr.hd[CHOOSE k \in m : TRUE][2]
Frozen == UNCHANGED <<iter, slot, loc, live, mapped, talive, crashed, uaf, acts, tid>>
Step == l' = l + 1
See == lasti' = Ev.seen          \* the target's silent progress up to the moment of the event

TInit == tid \in 1..Len(Traces) /\ l = 1 /\ verdict = "ok" /\ Init

TStart == /\ More /\ Ev.e = "lasti" /\ ipc = "start"
          /\ lb' = Ev.lasti /\ hd' = HDT(Ev.lasti) /\ ipc' = "deref"
          /\ verdict' = IF Ev.depth = HDT(Ev.lasti) THEN "ok"
                        ELSE "the handler depth of this attempt is not the exception table's depth at its lasti_before"
          /\ UNCHANGED <<attempt, ptr, n, i, snap, result>> /\ See /\ Step /\ Frozen
TDeref == /\ More /\ Ev.e = "deref" /\ ipc = "deref"
          /\ ptr' = "stack" /\ ipc' = (IF Ev.seen = lb THEN "header" ELSE "mustretry")
          /\ UNCHANGED <<attempt, lb, hd, n, i, snap, result, verdict>> /\ See /\ Step /\ Frozen
THeader == /\ More /\ Ev.e = "header" /\ ipc = "header"
           /\ n' = (IF Ev.owned THEN 0 ELSE Ev.n) /\ i' = 1 /\ snap' = <<>>     \* a frame owned by its frame object: no slot is read
           /\ ipc' = "check"
           /\ verdict' = IF Ev.unknown_top /\ Ev.n # hd
                         THEN "an executing frame was trimmed to a depth other than the handler depth of this attempt"
                         ELSE "ok"
           /\ UNCHANGED <<attempt, lb, hd, ptr, result>> /\ See /\ Step /\ Frozen
TSlot == /\ More /\ Ev.e = "slot" /\ ipc = "check" /\ i <= n /\ Ev.i = i - 1
         /\ IF Ev.seen = lb THEN snap' = Append(snap, 0) /\ i' = i + 1 /\ ipc' = "check"
            ELSE ipc' = "mustretry" /\ UNCHANGED <<snap, i>>
         /\ UNCHANGED <<attempt, lb, hd, ptr, n, result, verdict>> /\ See /\ Step /\ Frozen
TFinal == /\ More /\ Ev.e = "final" /\ ipc = "check" /\ i > n
          /\ IF Ev.seen = lb THEN ipc' = "end" /\ result' = "ok" ELSE ipc' = "mustretry" /\ UNCHANGED result
          /\ UNCHANGED <<attempt, lb, hd, ptr, n, i, snap, verdict>> /\ See /\ Step /\ Frozen
\* a retry is legitimate after a failed re-check, or from the header window (the identity / bounds asserts and the
\* re-check that follows the from_address call have no probe of their own)
TRetry == /\ More /\ Ev.e = "retry" /\ ipc \in {"mustretry", "header"}
          /\ Retry
          /\ UNCHANGED <<lb, hd, ptr, n, i, snap, verdict>> /\ See /\ Step /\ Frozen
TEnd == /\ More /\ Ev.e = "end"
        /\ CASE Ev.result = "ok" -> ipc = "end" /\ result = "ok" /\ Ev.nstack = Len(snap) /\ Len(snap) = n
             [] Ev.result = "giveup" -> ipc = "end" /\ result = "giveup" /\ attempt = MaxAttempts
             [] Ev.result = "raised" -> ipc \in {"mustretry", "header"}       \* an assertion failed and f_lasti was back at lasti_before: rejected
             [] OTHER -> FALSE
        \* the block list returned with the snapshot is the handler chain of lasti_before (computed by the harness from
        \* CPython's exception table): stack and blocks describe ONE position
        /\ verdict' = IF Ev.result = "ok" /\ ~Ev.blocks_ok
                       THEN "the blocks returned with the snapshot are not the handler chain of its lasti_before"
                       ELSE verdict
        /\ UNCHANGED vars /\ Step /\ UNCHANGED tid

TNext == TStart \/ TDeref \/ THeader \/ TSlot \/ TFinal \/ TRetry \/ TEnd
TSpec == TInit /\ [][TNext]_tvars

Consumed == l > Len(Tr.events)
Progress == PrintT(<<"EMIT", ToJson([tid |-> tid, l |-> l, consumed |-> Consumed, verdict |-> verdict, attempts |-> attempt,
                                     ipc |-> ipc])>>)
=============================================================================
