\* M7: every path of every program in WL_PROGS (JSON); terminal behaviours are exported for replay
SPECIFICATION Spec
INVARIANT ExitingIsActive
INVARIANT ExitingIsLast
INVARIANT NoDuplicates
INVARIANT AllExitedAtEnd
PROPERTY ObserveIsStutter
CONSTRAINT DepthEmit
CHECK_DEADLOCK FALSE
