\* C10 guard clause: cyclic unwrap tables (linear cycles: results of length <= 1), small guard; every
\* behaviour terminates under weak fairness, no state constraint.  Branching cycles: EI_guard_branch.cfg (F12)
SPECIFICATION FairSpec
CONSTANTS
  NF = 1
  NW = 3
  NL = 1
  MaxLen = 1
  MaxLoops = 3
  MaxFaults = 0
  UKinds = {"none", "one", "seq"}
  EKinds = {"none"}
  Cyclic = TRUE
  AllowNone = FALSE
  ETargetSet = {}
  MaxOut = 99
  CtxFaults = FALSE
  Fixed = TRUE
  Roots = {2}
  GenT = {}
  FixedF5 = TRUE
  NoWeak = {}
INVARIANT NeverEscapes
INVARIANT GuardRecorded
PROPERTY Terminates
CHECK_DEADLOCK FALSE
