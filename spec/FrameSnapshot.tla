--------------------------- MODULE FrameSnapshot ---------------------------
(***************************************************************************)
(* M5: the frame snapshot protocol of _lowlevel_cpython_311.inspect_frame   *)
(* racing a target frame that is executing on ANOTHER thread.               *)
(*                                                                         *)
(* Target (environment).  A function running                               *)
(*      while more(): with cm(): a(); b()                                   *)
(*                    c()                                                   *)
(* observed only at the points where it can lose the GIL (inside the calls):*)
(*   pos 1 = in a()  pos 2 = in b()   (both inside the with: the value      *)
(*   stack holds the bound __exit__ of this iteration's manager, and the    *)
(*   exception table gives handler depth HD there)                          *)
(*   pos 3 = in c()  (outside the with: handler depth 0)                    *)
(*   pos 9 = returned: the interpreter frame has moved into the frame       *)
(*   object; the old location on the thread's data stack is stale, and      *)
(*   after the thread exits it is UNMAPPED.                                 *)
(* slot: the object id in value-stack slot 1 at the current location;       *)
(* live: object ids that still exist.                                       *)
(*                                                                         *)
(* Inspector: one action per statement group between two points where       *)
(* CPython may hand the GIL over (= between guarded probes).               *)
(***************************************************************************)
EXTENDS Naturals, Sequences, FiniteSets, TLC

CONSTANTS MaxAttempts, MaxIter,
          CheckReadAtomic,   \* TRUE: no GIL hand-over between the f_lasti re-check and the slot read (the code's assumption)
          HeaderGuard,       \* TRUE: models a mitigation of F10 (re-check f_lasti right before the header reads)
          HD                 \* handler depth inside the with block (1: just the __exit__ method)

VARIABLES lasti, iter, slot, loc, live, mapped, talive,             \* target
          ipc, attempt, lb, hd, ptr, n, i, snap, result,            \* inspector
          crashed, uaf, acts
vars == <<lasti, iter, slot, loc, live, mapped, talive, ipc, attempt, lb, hd, ptr, n, i, snap, result, crashed, uaf, acts>>

HDepth(p) == IF p \in {1, 2} THEN HD ELSE 0
Obj(it) == 10 + it

Init == /\ lasti = 1 /\ iter = 1 /\ slot = Obj(1) /\ loc = "stack" /\ live = {Obj(1)} /\ mapped = TRUE /\ talive = TRUE
        /\ ipc = "start" /\ attempt = 1 /\ lb = 0 /\ hd = 0 /\ ptr = "none" /\ n = 0 /\ i = 1 /\ snap = <<>>
        /\ result = "none" /\ crashed = FALSE /\ uaf = FALSE /\ acts = <<>>

Lab(a) == acts' = Append(acts, a)
IU == UNCHANGED <<ipc, attempt, lb, hd, ptr, n, i, snap, result, crashed, uaf>>
(* ---- target steps: each runs the target to its next GIL-release point *)
T12 == /\ talive /\ lasti = 1 /\ lasti' = 2 /\ UNCHANGED <<iter, slot, loc, live, mapped, talive>> /\ IU /\ Lab("T12")
T23 == /\ talive /\ lasti = 2 /\ lasti' = 3 /\ live' = live \ {slot}            \* the with exits: manager and its __exit__ die
       /\ UNCHANGED <<iter, slot, loc, mapped, talive>> /\ IU /\ Lab("T23")    \* the slot keeps a dangling pointer
T31 == /\ talive /\ lasti = 3 /\ iter < MaxIter /\ lasti' = 1 /\ iter' = iter + 1
       /\ slot' = Obj(iter + 1) /\ live' = live \cup {Obj(iter + 1)}            \* same position, different objects (ABA)
       /\ UNCHANGED <<loc, mapped, talive>> /\ IU /\ Lab("T31")
TFinish == /\ talive /\ lasti = 3 /\ lasti' = 9 /\ loc' = "embedded"
           /\ UNCHANGED <<iter, slot, live, mapped, talive>> /\ IU /\ Lab("TFinish")
TExit == /\ talive /\ lasti = 9 /\ talive' = FALSE /\ mapped' = FALSE
         /\ UNCHANGED <<lasti, iter, slot, loc, live>> /\ IU /\ Lab("TExit")
TU == UNCHANGED <<lasti, iter, slot, loc, live, mapped, talive>>

Retry == IF attempt < MaxAttempts THEN ipc' = "start" /\ attempt' = attempt + 1 /\ result' = result
         ELSE ipc' = "end" /\ attempt' = attempt /\ result' = "giveup"
(* ---- inspector steps *)
\* lines 159-165: lasti_before = frame.f_lasti; handler depth from the exception table
IStart == /\ ipc = "start" /\ lb' = lasti /\ hd' = HDepth(lasti) /\ ipc' = "deref"
          /\ UNCHANGED <<attempt, ptr, n, i, snap, result, crashed, uaf>> /\ TU /\ Lab("IStart")
\* line 177: iframe_raw = frame_raw.f_frame.contents
IDeref == /\ ipc = "deref" /\ ptr' = loc /\ ipc' = "header"
          /\ UNCHANGED <<attempt, lb, hd, n, i, snap, result, crashed, uaf>> /\ TU /\ Lab("IDeref")
\* lines 178-203: header reads through ptr (identity asserts, stacktop, owner) and the first f_lasti re-check
IHeader == /\ ipc = "header"
           /\ IF HeaderGuard /\ lasti # lb THEN Retry /\ UNCHANGED <<n, i, snap, crashed>>
              ELSE IF ptr = "stack" /\ ~mapped THEN crashed' = TRUE /\ ipc' = "end" /\ UNCHANGED <<attempt, n, i, snap, result>>
              ELSE IF lasti # lb THEN Retry /\ UNCHANGED <<n, i, snap, crashed>>      \* stale but mapped: the re-check fails
              ELSE /\ n' = (IF lasti = 9 THEN 0 ELSE hd) /\ i' = 1 /\ snap' = <<>> /\ ipc' = "check"
                   /\ UNCHANGED <<attempt, result, crashed>>
           /\ UNCHANGED <<lb, hd, ptr, uaf>> /\ TU /\ Lab("IHeader")
Read == /\ crashed' = (crashed \/ (ptr = "stack" /\ ~mapped))
        /\ uaf' = (uaf \/ slot \notin live)
        /\ snap' = Append(snap, slot)
\* lines 217-237: per slot: re-check f_lasti, then read the pointer and take a reference
ICheck == /\ ipc = "check"
          /\ IF i > n
             THEN \* line 239: final re-check
                  IF lasti # lb THEN Retry /\ UNCHANGED <<i, snap, crashed, uaf>>
                  ELSE ipc' = "end" /\ result' = "ok" /\ UNCHANGED <<attempt, i, snap, crashed, uaf>>
             ELSE IF lasti # lb THEN Retry /\ UNCHANGED <<i, snap, crashed, uaf>>
             ELSE IF CheckReadAtomic THEN Read /\ i' = i + 1 /\ ipc' = "check" /\ UNCHANGED <<attempt, result>>
             ELSE ipc' = "read" /\ UNCHANGED <<attempt, i, snap, result, crashed, uaf>>
          /\ UNCHANGED <<lb, hd, ptr, n>> /\ TU /\ Lab("ICheck")
IRead == /\ ipc = "read" /\ Read /\ i' = i + 1 /\ ipc' = "check"
         /\ UNCHANGED <<attempt, lb, hd, ptr, n, result>> /\ TU /\ Lab("IRead")

Next == T12 \/ T23 \/ T31 \/ TFinish \/ TExit \/ IStart \/ IDeref \/ IHeader \/ ICheck \/ IRead
Spec == Init /\ [][Next]_vars

---------------------------------------------------------------------------
NoCrash == ~crashed                                   \* fails: finding F10 (thread exit inside the header window)
NoUseAfterFree == ~uaf                                \* holds under CheckReadAtomic; the code's documented GIL assumption
\* a snapshot that is returned is consistent with a single instruction position: its length is the trimmed depth at lb
SnapshotSingleInstant == result = "ok" => Len(snap) = (IF lb = 9 THEN 0 ELSE HDepth(lb))
AtMostAttempts == attempt <= MaxAttempts
\* F10 excuse: the target thread exited between the frame deref and the header reads of the same attempt
RECURSIVE ExitInWindow(_, _)
ExitInWindow(k, open) == IF k > Len(acts) THEN FALSE
                         ELSE IF acts[k] = "IDeref" THEN ExitInWindow(k + 1, TRUE)
                         ELSE IF acts[k] = "IHeader" THEN ExitInWindow(k + 1, FALSE)
                         ELSE IF acts[k] = "TExit" /\ open THEN TRUE
                         ELSE ExitInWindow(k + 1, open)
NoCrashX == crashed => ExitInWindow(1, FALSE)
View == <<lasti, iter, slot, loc, live, mapped, talive, ipc, attempt, lb, hd, ptr, n, i, snap, result, crashed, uaf>>
Ended == ipc = "end"
=============================================================================
