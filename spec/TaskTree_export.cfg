\* replay export (run with -simulate)
SPECIFICATION SpecAlt
CONSTANTS
  MaxTasks = 6
  MaxNest = 3
  MaxSteps = 24
  Endings = {"plain", "tryexc", "tryfin", "condret", "acm", "wrap"}
  Starts = TRUE
  Portals = TRUE
INVARIANT TreeShape
INVARIANT AexitHasKids
CONSTRAINT Emit
CHECK_DEADLOCK FALSE
