------------------------------ MODULE CtxTree ------------------------------
(***************************************************************************)
(* M8 (context-manager structures stackscope must mirror) for C09:          *)
(*  - ExitStackOps: the callback list of an ExitStack / AsyncExitStack as a *)
(*    sequence driven by the registration methods (and pop_all / close),    *)
(*    and how the glue must classify each registered callback;              *)
(*  - Unfold: the Context tree a manager tree must extract to.              *)
(*                                                                         *)
(* Manager trees are GIVEN (JSON, enumerated by the harness).  A node:      *)
(*   [id, k, async, yf, bp, exiting, body, ops]                             *)
(*   k = "plain"  a manager with plain __enter__/__exit__ methods            *)
(*   k = "gcm"    made by @contextmanager / @asynccontextmanager; its        *)
(*                generator holds the managers in `body` (nested withs) and  *)
(*                is suspended inside them; yf: the body lives in a helper   *)
(*                generator reached by `yield from` (sync only)              *)
(*   k = "stack"  ExitStack / AsyncExitStack populated by `ops`              *)
(* An op: [op, node] with op among                                          *)
(*   enter_context, push_mgr, push_fn, push_method, callback,               *)
(*   enter_async_context, push_async_exit_mgr, push_async_exit_fn,          *)
(*   push_async_exit_method, push_async_callback, pop_all, close            *)
(***************************************************************************)
EXTENDS Naturals, Sequences, FiniteSets, TLC, Json, IOUtils

Given == JsonDeserialize(IOEnv.CT_GIVEN)
VARIABLES tid, done
vars == <<tid, done>>

---------------------------------------------------------------------------
(* ExitStackOps: state = the callback list, outermost (first registered) first *)
AsyncOps == {"enter_async_context", "push_async_exit_mgr", "push_async_exit_fn", "push_async_exit_method", "push_async_callback"}
\* how stackscope is expected to describe the callback: the registration method by which it can be told apart.
\* push(manager) stores manager.__exit__ exactly as enter_context does, so the two are indistinguishable.
Method(op) == CASE op \in {"enter_context", "push_mgr"} -> "enter_context"
                [] op \in {"push_fn", "push_method"} -> "push"
                [] op = "callback" -> "callback"
                [] op \in {"enter_async_context", "push_async_exit_mgr"} -> "enter_async_context"
                [] op \in {"push_async_exit_fn", "push_async_exit_method"} -> "push_async_exit"
                [] op = "push_async_callback" -> "push_async_callback"
\* what Context.obj must be: the manager, the function, the method's self, or the wrapped callback
ObjKind(op) == CASE op \in {"enter_context", "push_mgr", "enter_async_context", "push_async_exit_mgr"} -> "manager"
                 [] op \in {"push_fn", "push_async_exit_fn"} -> "function"
                 [] op \in {"push_method", "push_async_exit_method"} -> "method-self"
                 [] OTHER -> "wrapped-callback"
RECURSIVE Apply(_, _, _)
Apply(ops, i, cbs) == IF i > Len(ops) THEN cbs
                      ELSE IF ops[i].op \in {"pop_all", "close"} THEN Apply(ops, i + 1, <<>>)
                      ELSE Apply(ops, i + 1, Append(cbs, ops[i]))
CbList(ops) == Apply(ops, 1, <<>>)

---------------------------------------------------------------------------
(* Unfold: the expected Context for a manager node *)
RECURSIVE Unfold(_, _), UnfoldBody(_), UnfoldCbs(_, _), Unentered(_)
\* push(mgr) / push_async_exit(mgr) register the manager's exit WITHOUT entering it: a generator-based manager's
\* generator has not started, so its inner stack is its one unstarted frame, holding no contexts yet
Unentered(n) == IF n.k = "gcm"
                THEN [Unfold(n, FALSE) EXCEPT !.frames = << [fn |-> "outer", ctxs |-> <<>>] >>]
                ELSE Unfold(n, FALSE)
\* contexts of the generator frame of a gcm: its body managers, all active, none exiting
UnfoldBody(body) == [i \in 1..Len(body) |-> Unfold(body[i], FALSE)]
UnfoldCbs(cbs, stackAsync) ==
  [i \in 1..Len(cbs) |->
     LET c == cbs[i]
         base == IF ObjKind(c.op) = "manager"
                 THEN (IF c.op \in {"push_mgr", "push_async_exit_mgr"} THEN Unentered(c.node) ELSE Unfold(c.node, FALSE))
                 ELSE [id |-> 0, k |-> ObjKind(c.op), async |-> c.op \in AsyncOps, exiting |-> FALSE,
                       frames |-> <<>>, hasinner |-> FALSE, children |-> <<>>, method |-> "", idx |-> 0]
     IN [base EXCEPT !.async = c.op \in AsyncOps, !.method = Method(c.op), !.idx = i - 1]]
Unfold(n, exiting) ==
  CASE n.k = "plain" ->
         [id |-> n.id, k |-> "plain", async |-> n.async, exiting |-> exiting, frames |-> <<>>, hasinner |-> FALSE,
          children |-> <<>>, method |-> "", idx |-> 0]
    [] n.k = "gcm" ->
         \* inner_stack is the generator's own stack unless the manager is exiting
         [id |-> n.id, k |-> "gcm", async |-> n.async, exiting |-> exiting,
          hasinner |-> ~exiting,
          frames |-> IF exiting THEN <<>>
                     ELSE IF n.yf THEN << [fn |-> "outer", ctxs |-> <<>>], [fn |-> "helper", ctxs |-> UnfoldBody(n.body)] >>
                     \* a manager made by the async_generator BACKPORT's asynccontextmanager over an @async_generator
                     \* function (n.bp): its generator is suspended in `await yield_(...)`, a library coroutine whose frame
                     \* the glue reports hidden (and prunes what is inward of it)
                     ELSE << [fn |-> "outer", ctxs |-> UnfoldBody(n.body)] >>
                          \o (IF n.bp THEN << [fn |-> "lib:yield_", ctxs |-> <<>>] >> ELSE <<>>),
          children |-> <<>>, method |-> "", idx |-> 0]
    [] n.k = "stack" ->
         [id |-> n.id, k |-> "stack", async |-> n.async, exiting |-> exiting, frames |-> <<>>, hasinner |-> FALSE,
          \* while the stack is unwinding (exiting), the callbacks already popped (n.popped, innermost first) are gone;
          \* the remaining ones are still registered -- and are NOT exiting themselves
          children |-> UnfoldCbs(SubSeq(CbList(n.ops), 1, Len(CbList(n.ops)) - n.popped), n.async), method |-> "", idx |-> 0]

---------------------------------------------------------------------------
Init == tid \in 1..Len(Given) /\ done = FALSE
Step == ~done /\ done' = TRUE /\ UNCHANGED tid
Spec == Init /\ [][Step]_vars

Root == Given[tid].root
Expected == Unfold(Root, Given[tid].exiting)

\* structural sanity of the expectation itself
RECURSIVE WellFormed(_)
WellFormed(c) == /\ (c.hasinner => c.k = "gcm" /\ ~c.exiting)
                 /\ (c.k # "stack" => c.children = <<>>)
                 /\ \A i \in 1..Len(c.children) : c.children[i].idx = i - 1 /\ WellFormed(c.children[i])
                 /\ \A i \in 1..Len(c.frames) : \A j \in 1..Len(c.frames[i].ctxs) : WellFormed(c.frames[i].ctxs[j])
ExpectationWellFormed == WellFormed(Expected)
\* one child per registered callback, in registration order (pop_all / close empty the list)
RECURSIVE CountRegs(_, _, _)
CountRegs(ops, i, n) == IF i > Len(ops) THEN n
                        ELSE IF ops[i].op \in {"pop_all", "close"} THEN CountRegs(ops, i + 1, 0)
                        ELSE CountRegs(ops, i + 1, n + 1)
OneChildPerCallback == Root.k = "stack" => Len(Expected.children) = CountRegs(Root.ops, 1, 0) - Root.popped

Emit == done => PrintT(<<"EMIT", ToJson([tid |-> tid, expected |-> Expected])>>)
=============================================================================
