"""Orchestration for machine M1 (ExtractIter): exhaustive TLC configs (pattern I), given-table runs
replayed on the real implementation under every interpreter (pattern R)."""
from __future__ import annotations

import json
import random
from concurrent.futures import ThreadPoolExecutor
from pathlib import Path
from typing import Dict, List, Optional

from .common import BUILD, VERIF, MachineryError, available_interpreters, child_env, run, scratch
from .tlc import TLCResult, derive_cfg, require_coverage, run_tlc

NF, NW, NL = 3, 3, 1
FR = list(range(1, NF + 1))
WR = list(range(NF + 1, NF + NW + 1))
LF = list(range(NF + NW + 1, NF + NW + NL + 1))


def none():
    return {"k": "none", "xs": []}


def curated() -> List[dict]:
    """hand-written table sets: the shapes behind F6/F7 and the documented rules"""
    def T(U=None, E=None, C=None, root=4):
        u = [none() for _ in WR]
        e = [none() for _ in FR]
        for k, v in (U or {}).items():
            u[k - NF - 1] = v
        for k, v in (E or {}).items():
            e[k - 1] = v
        return {"root": root, "U": u, "E": e, "C": C or [False] * NF}
    S = lambda k, *xs: {"k": k, "xs": list(xs)}
    return [
        T({4: S("seq", 1, 2, 3)}),
        T({4: S("seq", 1, 2, 3)}, {1: S("replace")}),                     # PRUNE
        T({4: S("seq", 1, 2, 3)}, {2: S("replace", 7)}),
        T({4: S("seq", 1)}, {1: S("insert", 2)}),                         # F6: insert with next_inner None
        T({4: S("seq", 1)}, {1: S("insert")}),
        T({4: S("seq", 1, 5), 5: S("one", 1)}, {1: S("insert", 2), 2: S("replace")}),  # F7 (outward frame dropped)
        T({4: S("seq", 1, 2, 3), 5: S("one", 2)}, {1: S("insert", 5), 2: S("insert", 6)}),
        T({4: S("seq", 1, 2, 3), 5: S("seq", 2)}, {1: S("insert", 5), 2: S("insert", 7), 3: S("replace")}),
        T({4: S("seq", 1, 5, 3), 5: S("iterfail", 2, 0)}, {2: S("raise")}),
        T({4: S("seq", 5), 5: S("seq", 6), 6: S("seq", 4)}),             # cycle -> guard
        T({4: S("seq", 1, 7, 2)}),                                         # frames after an irreducible item
        T({4: S("raise")}),
        T({4: S("seq", 1, 2)}, None, [True, False, False]),
        T({4: S("seq", 1, 2)}, {1: S("replace", 7)}),
        T({4: S("seq", 1, 7)}, {1: S("replace", 2, 7)}),                  # replace that ends with next_inner (a leaf) == insert
        T({4: S("iter", 0, 1, 0, 2)}, {1: S("raise"), 2: S("raise")}, [True, True, False]),
        # a prune issued INSIDE inserted items must not reach next_inner even if next_inner was found deeper
        # (the Trio to_thread/from_thread shape): f1 inserts w6 -> f3 (prunes); next_inner f2 sits one layer deeper
        T({4: S("seq", 1, 5), 5: S("one", 2), 6: S("one", 3)}, {1: S("insert", 6), 3: S("replace")}),
        T({4: S("seq", 1, 5), 5: S("seq", 6), 6: S("seq", 2, 3)}, {1: S("insert", 3), 3: S("replace")}),
        T({4: S("seq", 1, 5), 5: S("seq", 6), 6: S("seq", 2)}, {1: S("insert", 7, 3), 3: S("replace", 7)}),
    ]


def random_tables(n: int, seed: int) -> List[dict]:
    rng = random.Random(seed)
    out = []
    for _ in range(n):
        cyc = rng.random() < 0.08
        faulty = rng.random() < 0.4
        U = []
        for w in WR:
            ks = ["none", "one", "seq", "seq", "iter"] + (["raise", "iterfail"] if faulty else [])
            k = rng.choice(ks)
            tg = FR * 2 + LF + [0] + [v for v in WR if cyc or v > w]
            if k in ("none", "raise"):
                xs = []
            elif k == "one":
                xs = [rng.choice([t for t in tg if t != 0])]
            else:
                xs = [rng.choice(tg) for _ in range(rng.choice([0, 1, 2, 2, 3, 3]))]
            U.append({"k": k, "xs": xs})
        E = []
        for f in FR:
            ks = ["none", "none", "replace", "insert", "insert"] + (["raise"] if faulty else [])
            k = rng.choice(ks)
            if k in ("none", "raise"):
                xs = []
            else:
                # mostly frames with larger ids and wrappers, so that most tables terminate
                tg = [g for g in FR if g > f] * 2 + WR + LF + ([f] if rng.random() < 0.1 else [])
                xs = [rng.choice(tg) for _ in range(rng.choice([0, 1, 1, 2, 2, 3]))]
            E.append({"k": k, "xs": xs})
        C = [faulty and rng.random() < 0.2 for _ in FR]
        U[0] = U[0] if U[0]["k"] not in ("none",) or rng.random() < 0.3 else {"k": "seq", "xs": [rng.choice(FR), rng.choice(FR + WR[1:])]}
        out.append({"root": 4, "U": U, "E": E, "C": C})
    return out


def _cyclic(U) -> bool:
    edges = {NF + 1 + j: [x for x in u["xs"] if x in WR] for j, u in enumerate(U)}
    state = {}

    def visit(w):
        if state.get(w) == 1:
            return True
        if state.get(w) == 2:
            return False
        state[w] = 1
        if any(visit(v) for v in edges[w]):
            return True
        state[w] = 2
        return False
    return any(visit(w) for w in WR)


def with_siblings(tables: List[dict], seed: int) -> List[dict]:
    """append, for every table set that contains raising entries, its fault-free sibling (every raising entry
    replaced by a non-raising one) and link the two through "sib" (1-based index, 0 = none)"""
    rng = random.Random(seed)
    out = [dict(t, sib=0) for t in tables]
    for i, t in enumerate(tables):
        faulty = any(u["k"] in ("raise", "iterfail") for u in t["U"]) or any(e["k"] == "raise" for e in t["E"]) or any(t["C"])
        if not faulty or _cyclic(t["U"]):
            continue        # the reference has no finite flattening on cyclic unwrap tables
        U = []
        for j, u in enumerate(t["U"]):
            if u["k"] == "iterfail":
                U.append({"k": "iter", "xs": u["xs"]})
            elif u["k"] == "raise":
                w = NF + 1 + j
                tg = FR + LF + [v for v in WR if v > w]
                U.append(rng.choice([{"k": "none", "xs": []}, {"k": "seq", "xs": [rng.choice(tg) for _ in range(rng.choice([0, 1, 2]))]}]))
            else:
                U.append(u)
        E = []
        for j, e in enumerate(t["E"]):
            if e["k"] == "raise":
                f = j + 1
                tg = [g for g in FR if g > f] + WR + LF
                E.append(rng.choice([{"k": "none", "xs": []}, {"k": "replace", "xs": []},
                                     {"k": "insert", "xs": [rng.choice(tg)]}, {"k": "replace", "xs": [rng.choice(tg)]}]))
            else:
                E.append(e)
        if _cyclic(U):
            continue        # the replacement closed a cycle: no finite reference for the sibling
        out.append({"root": t["root"], "U": U, "E": E, "C": [False] * NF, "sib": 0})
        out[i]["sib"] = len(out)
    return out


def spec_results(tables: List[dict], name: str, fixed: bool = True, timeout: int = 600) -> TLCResult:
    tables = [t if "sib" in t else dict(t, sib=0) for t in tables]
    d = BUILD / "m1"
    d.mkdir(parents=True, exist_ok=True)
    path = d / f"{name}_given.json"
    path.write_text(json.dumps(tables))
    cfg = derive_cfg("EI_given.cfg", f"EI_given_{name}.cfg", {"Fixed": "TRUE" if fixed else "FALSE"})
    return run_tlc("ExtractIterGiven", cfg, workers=1, timeout=timeout, env={"EI_GIVEN": str(path)}, name=f"m1given_{name}")


def replay(tables: List[dict], res: TLCResult, name: str, versions=None, timeout: int = 600) -> Dict[str, dict]:
    """run the real implementation on every table set for which the spec reached a terminal state"""
    exp = {e["tid"]: e for e in res.emitted}
    cases = []
    for tid, t in enumerate(tables, start=1):
        if tid in exp:
            c = dict(t)
            c["tid"] = tid
            c["expect"] = exp[tid]
            cases.append(c)
    d = BUILD / "m1"
    cpath = d / f"{name}_cases.json"
    cpath.write_text(json.dumps({"NF": NF, "NW": NW, "NL": NL, "cases": cases}))
    interps = available_interpreters(versions or ("3.12", "3.11", "3.10", "3.9"))

    def one(item):
        v, py = item
        opath = d / f"{name}_out_{v}.json"
        p, _ = run([py, str(VERIF / "harness/drivers/m1_driver.py"), str(cpath), str(opath)],
                   timeout=timeout, env=child_env(v))
        if p.returncode != 0:
            raise MachineryError(f"m1 driver failed under {v}: {p.stderr[-2000:]}")
        return v, json.loads(opath.read_text())

    with ThreadPoolExecutor(4) as ex:
        out = dict(ex.map(one, interps.items()))
    for v in out:
        out[v]["cases"] = {c["tid"]: c for c in cases}
    return out


def validate_traces(traces: List[dict], name: str, timeout: int = 900):
    """Pattern T: check recorded H1 traces against ExtractIterTrace.  Returns (TLCResult, verdicts) where
    verdicts[i] = {"accepted": bool, "prefix": longest matched prefix, "final": .., "equiv": .., "obad": [...],
    "oexc": [...]} for trace i (0-based)."""
    d = BUILD / "m1"
    d.mkdir(parents=True, exist_ok=True)
    path = d / f"{name}_traces.json"
    path.write_text(json.dumps(traces))
    res = run_tlc("ExtractIterTrace", "EI_trace.cfg", workers=1, timeout=timeout, coverage=False,
                  env={"EI_TRACES": str(path)}, name=f"m1trace_{name}")
    if not res.ok:
        raise MachineryError(f"trace validation run failed: {res.violated} {res.trace_text[-1500:]}")
    verdicts = [{"accepted": False, "prefix": 0, "final": False, "equiv": False, "obad": [], "oexc": []} for _ in traces]
    for e in res.emitted:
        v = verdicts[e["tid"] - 1]
        n = len(traces[e["tid"] - 1]["events"])
        v["prefix"] = max(v["prefix"], min(e["l"] - 1, n))
        if e["l"] > n:
            v["accepted"] = True
            if e.get("final") and not v["final"]:
                v["final"] = True
                v["equiv"] = bool(e.get("equiv"))
                v["obad"] = list(e.get("obad", []))
                v["oexc"] = list(e.get("oexc", []))
    return res, verdicts
