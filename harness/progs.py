"""Program space for M7 (WithLang): deterministic enumerator + seeded random generator of statement ASTs,
and the renderer that turns an AST into Python source for a given carrier.  stdlib-only (the renderer runs
inside every interpreter).

AST (JSON, consumed by spec/WithLang.tla and by the runner):
  {"k":"pass"} {"k":"susp"} {"k":"ret_k"} {"k":"ret_v"} {"k":"raise"} {"k":"break"} {"k":"continue"}
  {"k":"with","m":id,"async":bool,"join":bool,"tgt":int,"layout":int,"body":[...]}
  {"k":"try","body":[..],"has_handler":b,"handler":[..],"has_orelse":b,"orelse":[..],"has_final":b,"final":[..]}
  {"k":"for","body":[..]}  {"k":"while","body":[..]}  {"k":"if","body":[..],"orelse":[..]}
"join": this with is rendered as a further item of the enclosing with statement (whose body is exactly it)."""
import random

P = {"k": "pass"}
FAT = {"k": "pass", "fat": True}
S = {"k": "susp"}


def W(m, body, a=False, join=False, tgt=0, layout=0):
    return {"k": "with", "m": m, "async": a, "join": join, "tgt": tgt, "layout": layout, "body": body,
            "enter_raises": False, "exit_raises": False}


def T(body, handler=None, orelse=None, final=None):
    return {"k": "try", "body": body, "has_handler": handler is not None, "handler": handler or [],
            "has_orelse": orelse is not None, "orelse": orelse or [], "has_final": final is not None, "final": final or []}


def For(body):
    return {"k": "for", "body": body}


def While(body):
    return {"k": "while", "body": body}


def If(body, orelse=None):
    return {"k": "if", "body": body, "orelse": orelse or [], "match": False}


def Match(case1, case2, default):
    """match with two cases and a default; for the specification it is the nested conditional it means (the subject
    expression consumes branch outcomes in the same order), the renderer writes a match statement on 3.10+"""
    return {"k": "if", "body": case1, "orelse": [{"k": "if", "body": case2, "orelse": default, "match": False}], "match": True}


def K(k):
    return {"k": k}


# ------------------------------------------------------------------ static facts about a program
def walk(body):
    for s in body:
        yield s
        for key in ("body", "handler", "orelse", "final"):
            if key in s and isinstance(s[key], list):
                for x in walk(s[key]):
                    yield x


def has_async(body):
    return any(s["k"] == "with" and s["async"] for s in walk(body))


def renumber(body):
    """give every with node a unique manager id 1..n in source order (ids divisible by 3 swallow)"""
    n = [0]

    def go(b):
        for s in b:
            if s["k"] == "with":
                n[0] += 1
                s["m"] = n[0]
            for key in ("body", "handler", "orelse", "final"):
                if key in s and isinstance(s[key], list):
                    go(s[key])
    go(body)
    return n[0]


def valid(body, in_loop=False):
    """break/continue only inside loops (a finally clause may not contain continue on 3.7- : not our range)"""
    for s in body:
        if s["k"] in ("break", "continue") and not in_loop:
            return False
        if s["k"] in ("for", "while"):
            if not valid(s["body"], True):
                return False
        else:
            for key in ("body", "handler", "orelse", "final"):
                if key in s and isinstance(s[key], list):
                    if not valid(s[key], in_loop):
                        return False
    return True


# ------------------------------------------------------------------ enumerator
EXITS = ["fall", "ret_k", "ret_v", "break", "continue", "raise"]


def exit_stmts(kind):
    if kind == "fall":
        return []
    return [K(kind)]


def family_exit_kinds():
    """every way of leaving a with block, at every nesting depth 1..3, sync/async mixes, inside every wrapper"""
    out = []
    wrappers = ["none", "for", "while", "tryfin", "tryexc", "if", "for+tryfin"]
    for wr in wrappers:
        for depth in (1, 2, 3):
            for amask in range(2 ** depth):
                if depth == 3 and amask not in (0, 5, 7, 2):
                    continue
                for ex in EXITS:
                    if ex in ("break", "continue") and "for" not in wr and "while" not in wr:
                        continue
                    for join in ((False, True) if depth >= 2 else (False,)):
                        inner = [S] + exit_stmts(ex)
                        body = inner
                        for d in range(depth, 0, -1):
                            a = bool(amask >> (d - 1) & 1)
                            j = join and d >= 2 and a == bool(amask >> (d - 2) & 1)
                            body = [W(0, body, a, join=j)] + ([S] if d > 1 and not j else [])
                        prog = wrap(wr, body)
                        out.append(prog)
    return out


def wrap(wr, body):
    if wr == "none":
        return body + [S]
    if wr == "for":
        return [For(body + [S])]
    if wr == "while":
        return [While(body + [S]), S]
    if wr == "tryfin":
        return [T(body, final=[S])]
    if wr == "tryexc":
        return [T(body, handler=[S]), S]
    if wr == "if":
        return [If(body, [S])]
    if wr == "for+tryfin":
        return [For([T(body, final=[P])]), S]
    raise ValueError(wr)


def family_body_endings():
    """with bodies that END in a compound statement (the shapes behind F2)"""
    endings = [
        [If([K("ret_k")])],
        [If([K("ret_v")])],
        [If([K("raise")])],
        [If([If([K("ret_k")])])],
        [If([P], [P])],
        [If([K("ret_k")], [P])],
        [T([S], handler=[P])],
        [T([S], final=[P])],
        [T([If([K("raise")])], handler=[P], orelse=[P])],
        [T([P], handler=[K("ret_k")])],
        [While([S])],
        [While([If([K("break")]), S])],
        [For([P])],
        [For([If([K("continue")]), S])],
        [For([If([K("break")])])],
        [W(0, [If([K("ret_k")])], False)],
        [W(0, [If([K("ret_k")])], True)],
    ]
    out = []
    for e in endings:
        for a1 in (False, True):
            for a2 in (False, True):
                out.append([W(0, [W(0, [S] + e, a2)], a1), S])
                out.append([For([W(0, [W(0, [S] + e, a2)], a1)])])
                out.append([T([W(0, [W(0, e, a2), S], a1)], final=[P])])
        out.append([W(0, [S] + e, True)])
        out.append([W(0, e, False), S])
    # long bodies: the with body (and what lies between the with and its exit sequences) exceeds 255 code units
    for a1 in (False, True):
        out.append([W(0, [FAT, S, If([K("ret_k")]), FAT], a1), S])
        out.append([For([W(0, [S, FAT, If([K("continue")], [FAT]), S], a1)])])
        out.append([T([W(0, [W(0, [FAT, S], not a1), FAT], a1)], final=[S])])
        out.append([W(0, [FAT, FAT, S], a1), FAT, W(0, [S], a1)])
    # match statements (3.10+; rendered as nested ifs on 3.9) as body endings, and managers that raise in enter / exit
    for a1 in (False, True):
        for a2 in (False, True):
            out.append([W(0, [W(0, [S, Match([K("ret_k")], [P], [])], a2)], a1), S])
            out.append([For([W(0, [W(0, [Match([K("continue")], [K("break")], [S])], a2), S], a1)])])
            out.append([W(0, [S, Match([S], [K("raise")], [P]), S], a1)])
            for which in ("enter_raises", "exit_raises"):
                inner = W(0, [S], a2)
                inner[which] = True
                out.append([T([W(0, [S, inner, S], a1)], handler=[S]), S])
                outer = W(0, [W(0, [S], a2), S], a1)
                outer[which] = True
                out.append([T([outer], handler=[P], final=[S])])
                third = W(0, [S], a2)
                third[which] = True
                out.append([For([T([W(0, [third], a1)], handler=[S])])])
    # loops INSIDE an outer with, whose body holds an inner with that ends in a conditional jump
    loop_endings = endings + [
        [If([K("continue")])], [If([K("break")])], [If([K("continue")], [P])], [If([K("break")], [S])],
        [If([If([K("continue")])])], [T([If([K("continue")])], final=[P])], [If([K("continue")]), If([K("break")])],
    ]
    for e in loop_endings:
        for a1 in (False, True):
            for a2 in (False, True):
                for loop in (For, While):
                    out.append([W(0, [loop([W(0, [S] + e, a2)])], a1), S])
                    out.append([W(0, [loop([W(0, e, a2), S])], a1)])
        out.append([T([For([W(0, [S] + e, True)])], final=[S])])
        out.append([W(0, [W(0, [For([W(0, e, True)])], True)], False)])
    return out


def random_body(rng, depth, budget, in_loop):
    n = rng.choice([1, 1, 2, 2, 3])
    body = []
    for _ in range(n):
        if budget[0] <= 0:
            break
        budget[0] -= 1
        r = rng.random()
        if depth <= 0 or r < 0.22:
            body.append(rng.choice([S, S, P]))
        elif r < 0.55:
            body.append(W(0, random_body(rng, depth - 1, budget, in_loop), rng.random() < 0.5,
                          join=False))
        elif r < 0.65:
            kind = rng.choice([0, 1, 2, 3])
            b = random_body(rng, depth - 1, budget, in_loop)
            if kind == 0:
                body.append(T(b, handler=random_body(rng, depth - 1, budget, in_loop)))
            elif kind == 1:
                body.append(T(b, final=random_body(rng, depth - 1, budget, in_loop)))
            elif kind == 2:
                body.append(T(b, handler=[P], orelse=random_body(rng, depth - 1, budget, in_loop)))
            else:
                body.append(T(b, handler=[rng.choice([P, S])], final=[P]))
        elif r < 0.75:
            body.append(rng.choice([For, While])(random_body(rng, depth - 1, budget, True)))
        elif r < 0.83:
            body.append(If(random_body(rng, depth - 1, budget, in_loop),
                           random_body(rng, depth - 1, budget, in_loop) if rng.random() < 0.4 else None))
        elif r < 0.87:
            body.append(Match(random_body(rng, depth - 1, budget, in_loop), random_body(rng, depth - 1, budget, in_loop),
                              random_body(rng, depth - 1, budget, in_loop) if rng.random() < 0.6 else []))
        else:
            ks = ["ret_k", "ret_v", "raise"] + (["break", "continue"] if in_loop else [])
            body.append(K(rng.choice(ks)))
            break
    return body


def mark_joins(body, rng):
    for s in body:
        if s["k"] == "with" and len(s["body"]) == 1 and s["body"][0]["k"] == "with" \
                and s["body"][0]["async"] == s["async"] and rng.random() < 0.5:
            s["body"][0]["join"] = True
        for key in ("body", "handler", "orelse", "final"):
            if key in s and isinstance(s[key], list):
                mark_joins(s[key], rng)


def random_programs(n, seed):
    rng = random.Random(seed)
    out = []
    while len(out) < n:
        body = random_body(rng, 3, [9], False)
        if not any(s["k"] == "with" for s in walk(body)):
            continue
        mark_joins(body, rng)
        out.append(body + [S])
    return out


N_TARGETS = 28
N_LAYOUTS = 6


def family_targets():
    """C08: every target form x every layout x sync/async x 1..3 items (explicit metadata)"""
    out = []
    for tgt in range(N_TARGETS):
        for layout in range(N_LAYOUTS):
            for a in (False, True):
                for nitems in (1, 2, 3):
                    body = [S]
                    for d in range(nitems, 0, -1):
                        w = W(0, body, a, join=(d > 1), tgt=(tgt + d - 1) % N_TARGETS if d > 1 else tgt, layout=layout)
                        w["fixed_meta"] = True
                        body = [w]
                    out.append(body + [S])
    return out


def assign_metadata(body, rng):
    for s in walk(body):
        if s["k"] == "with":
            s.setdefault("enter_raises", False)
            s.setdefault("exit_raises", False)
            if not s.get("fixed_meta") and not s.get("join"):
                r = rng.random()
                if r < 0.04:
                    s["enter_raises"] = True
                elif r < 0.08:
                    s["exit_raises"] = True
        if s["k"] == "with" and not s.get("fixed_meta"):
            s["tgt"] = rng.randrange(N_TARGETS)
            s["layout"] = rng.randrange(N_LAYOUTS)


def family_deep():
    """many managers open at once in ONE frame (the compiler allows 20 statically nested blocks): the analysis walks one
    handler per open block, and more on the exit paths"""
    out = []
    for n, amask, joined in ((17, 0, False), (18, 0b101010101010101010, False), (18, 0, True), (17, 0, None)):
        body = [S, K("raise")] if joined is None else [S]
        for d in range(n, 0, -1):
            a = bool(amask >> (d - 1) & 1)
            body = [W(0, body, a, join=bool(joined) and d >= 2)]
        body[0]["deep"] = True
        # (18 blocks at most, all told: CPython 3.12.1's compiler crashes on 19 nested blocks in an async function)
        out.append([T(body, handler=[S]), S] if joined is None else body + [S])
    return out


def copy(x):
    if isinstance(x, dict):
        return {k: copy(v) for k, v in x.items()}
    if isinstance(x, list):
        return [copy(v) for v in x]
    return x


def build_programs(n_random, seed, families=True, targets=False):
    progs = []
    if families:
        progs += family_exit_kinds() + family_body_endings() + family_deep()
    if targets:
        progs += family_targets()
    progs += random_programs(n_random, seed)
    rng = random.Random(seed + 1)
    out = []
    for body in progs:
        body = copy(body)
        if not valid(body):
            continue
        nm = renumber(body)
        if nm == 0 or (nm > 7 and not any(x.get("deep") for x in walk(body))):
            continue
        assign_metadata(body, rng)
        # every 8th program is "padded": it first touches 300 global names and creates its managers through a
        # global, so that the instruction that starts a with line carries an EXTENDED_ARG prefix
        # every 8th program (another residue) is a CLOSURE whose body contains a comprehension that re-uses one of its
        # free-variable names as iteration variable (3.12 inlines the comprehension: the name is in co_varnames AND in
        # co_freevars, with a slot each)
        out.append({"body": body, "async": has_async(body), "nm": nm, "pad": len(out) % 8 == 5, "closure": len(out) % 8 == 3,
                    # ... and every 8th (a third residue) holds a comprehension whose loop variable is CAPTURED by a lambda:
                    # 3.12 inlines the comprehension and makes that variable a cell of the program's own frame -- a
                    # name that is in co_varnames and co_cellvars without being an argument
                    "lamcomp": len(out) % 8 == 6})
    return out


# ------------------------------------------------------------------ targets (C08)
# (target source, supported?, shape of the value __enter__ must return: "self" | tuple structure)
TARGETS = [
    ("", True, "self"),
    ("x{m}", True, "self"),
    ("env.ns.a{m}", True, "self"),
    ("env.ns.sub.b{m}", True, "self"),
    ("env.d['k{m}']", True, "self"),
    ("env.d[kname]", True, "self"),
    ("env.lst[0]", True, "self"),
    ("env.d['n']['m{m}']", True, "self"),
    ("(p{m}, q{m})", True, ("s", "s")),
    ("[p{m}, q{m}]", True, ("s", "s")),
    ("(p{m}, *r{m})", True, ("s", "s", "s")),
    ("(*r{m}, q{m})", True, ("s", "s", "s")),
    ("(p{m}, (q{m}, r{m}))", True, ("s", ("s", "s"))),
    ("(p{m}, env.ns.t{m})", True, ("s", "s")),
    ("(p{m},)", True, ("s",)),
    ("env.get(1).z{m}", True, "self"),
    ("env.get('a', 2)['i{m}']", True, "self"),
    ("env.sd('s', kname)['u{m}']", True, "self"),
    ("lfn().w{m}", True, "self"),
    ("lfn(1).w{m}", True, "self"),
    ("env.d[(y{m} := 'w')]", False, "self"),
    ("env.lst[kzero + 0]", False, "self"),
    ("env.get(k=1).z{m}", False, "self"),
    ("env.lst[0:1]", False, ("s",)),
    # tuple displays built at run time, where the parentheses / the trailing comma carry meaning
    ("env.d[kname,]", False, "self"),
    ("env.d[(kname, kzero), kzero]", False, "self"),
    ("env.get((kname, kzero)).z{m}", False, "self"),
    ("env.d[kname, kzero]", False, "self"),
]
assert len(TARGETS) == N_TARGETS


# ------------------------------------------------------------------ renderer
class Rendered:
    def __init__(self):
        self.lines = []
        self.with_line = {}      # manager id -> line of the with keyword
        self.target = {}         # manager id -> target source ('' = none)
        self.supported = {}
        self.shape = {}
        self.is_async = {}
        self.enter_raises = {}
        self.exit_raises = {}

    @property
    def source(self):
        return "\n".join(self.lines) + "\n"


def render(prog, carrier, running=False, first_line=1, py=(3, 12)):
    """carrier: 'gen' | 'coro' | 'agen' | 'func'.  running=True: nothing suspends; susp and pass become probes."""
    r = Rendered()
    r.lines = [""] * (first_line - 1)
    head = {"gen": "def prog(env):", "func": "def prog(env):", "coro": "async def prog(env):",
            "agen": "async def prog(env):", "ageny": "async def prog(env):"}[carrier]
    base = 1 if prog.get("closure") else 0
    B = "    " * base
    if base:
        r.lines.append("def _factory():")
        r.lines.append("    cvar = 0; cother = 1")
    r.lines.append(B + head)
    r.lines.append(B + "    kname = 'kn'; kzero = 0; unset = None")
    if base:
        r.lines.append(B + "    _q = [cvar for cvar in (kzero,)]; _w = (cvar, cother)")
    if prog.get("lamcomp"):
        r.lines.append(B + "    _lz = [lambda: lzv for lzv in (kzero, kzero)]")
    pad = bool(prog.get("pad"))
    if pad:
        r.lines.append(B + "    _pad = [" + ", ".join("G%d" % k for k in range(300)) + "]")
    r.lines.append(B + "    def lfn(*a): return env.ns")
    if carrier in ("agen", "ageny"):
        r.lines.append(B + "    if env.never: yield 0")
    if carrier == "gen" and running:
        r.lines.append(B + "    if env.never: yield 0")

    def emit(ind, text):
        r.lines.append("    " * ind + text)
        return len(r.lines)

    probe_no = [0]

    def probe_src():
        # every second probe is a call with exactly three literal None arguments: what the compiler emits for the
        # with statement's own __exit__(None, None, None), but an ordinary call
        probe_no[0] += 1
        return "env.probe(None, None, None)" if probe_no[0] % 2 == 0 else "env.probe()"

    def susp(ind):
        if running:
            emit(ind, probe_src())
        elif carrier in ("gen", "ageny"):
            emit(ind, "yield 'S'")        # ageny: an async generator suspended at its OWN yield
        else:
            emit(ind, "await env.trap()")

    def items_of(s):
        items = [s]
        body = s["body"]
        while len(body) == 1 and body[0]["k"] == "with" and body[0].get("join") and body[0]["async"] == s["async"]:
            items.append(body[0])
            body = body[0]["body"]
        return items, body

    def block(body, ind):
        if not body:
            emit(ind, "env.nop()")
        for s in body:
            stmt(s, ind)

    def stmt(s, ind):
        k = s["k"]
        if k == "pass":
            emit(ind, probe_src() if running else "env.nop()")
            if s.get("fat"):
                # a long stretch of code: jump arguments and exception-table offsets beyond it need EXTENDED_ARG / two-byte varints
                for _ in range(60):
                    emit(ind, "env.nop(kzero, kname)")
        elif k == "susp":
            susp(ind)
        elif k == "ret_k":
            emit(ind, "return" if carrier in ("agen", "ageny") else "return 7")
        elif k == "ret_v":
            emit(ind, "return" if carrier in ("agen", "ageny") else "return env.value()")
        elif k == "raise":
            emit(ind, "raise env.Boom()")
        elif k in ("break", "continue"):
            emit(ind, k)
        elif k == "if" and s.get("match") and py >= (3, 10):
            inner = s["orelse"][0]
            emit(ind, "match env.sel():")
            emit(ind + 1, "case 1:")
            block(s["body"], ind + 2)
            emit(ind + 1, "case 2:")
            block(inner["body"], ind + 2)
            emit(ind + 1, "case _:")
            block(inner["orelse"], ind + 2)
        elif k == "if":
            emit(ind, "if env.c():")
            block(s["body"], ind + 1)
            if s["orelse"]:
                emit(ind, "else:")
                block(s["orelse"], ind + 1)
        elif k == "for":
            emit(ind, "for _i in range(2):")
            block(s["body"], ind + 1)
        elif k == "while":
            emit(ind, "while env.c():")
            block(s["body"], ind + 1)
        elif k == "try":
            emit(ind, "try:")
            block(s["body"], ind + 1)
            if s["has_handler"]:
                emit(ind, "except env.Boom:")
                block(s["handler"], ind + 1)
            if s["has_orelse"]:
                emit(ind, "else:")
                block(s["orelse"], ind + 1)
            if s["has_final"]:
                emit(ind, "finally:")
                block(s["final"], ind + 1)
        elif k == "with":
            items, body = items_of(s)
            kw = "async with" if s["async"] else "with"
            layout = s.get("layout", 0)
            parts = []
            for it in items:
                m = it["m"]
                tsrc, supported, shape = TARGETS[it.get("tgt", 0) % N_TARGETS]
                tsrc = tsrc.format(m=m)
                r.target[m] = tsrc
                r.supported[m] = supported
                r.shape[m] = shape
                r.is_async[m] = it["async"]
                r.enter_raises[m] = bool(it.get("enter_raises"))
                r.exit_raises[m] = bool(it.get("exit_raises"))
                parts.append((m, tsrc))
            pad = "    " * ind

            def item_src(m, tsrc, multiline_expr=False, multiline_tgt=False):
                mk = "GMK" if prog.get("pad") else "env.mk"
                e = "%s(%d)" % (mk, m)
                if multiline_expr:
                    e = "%s(\n%s        %d\n%s    )" % (mk, pad, m, pad)
                if tsrc:
                    t = tsrc
                    if multiline_tgt and t.startswith("(") and ", " in t:
                        t = t.replace(", ", ",\n%s        " % pad, 1)
                    return e + " as " + t
                return e
            if layout == 0 or (layout in (2,) and py < (3, 9)):
                text = "%s %s:" % (kw, ", ".join(item_src(m, t) for m, t in parts))
            elif layout == 1:   # header split with backslashes
                text = "%s %s:" % (kw, (", \\\n%s        " % pad).join(item_src(m, t) for m, t in parts))
            elif layout == 2:   # parenthesised items (3.9+ grammar)
                text = "%s (\n%s    %s\n%s):" % (kw, pad, (",\n%s    " % pad).join(item_src(m, t) for m, t in parts), pad)
            elif layout == 3:   # context expression over several lines
                text = "%s %s:" % (kw, ", ".join(item_src(m, t, multiline_expr=True) for m, t in parts))
            elif layout == 4:   # target over several lines
                text = "%s %s:" % (kw, ", ".join(item_src(m, t, multiline_tgt=True) for m, t in parts))
            else:               # comment + blank line before, single line
                emit(ind, "# with follows")
                text = "%s %s:" % (kw, ", ".join(item_src(m, t) for m, t in parts))
            first = len(r.lines) + 1
            for ln in (pad + text).split("\n"):
                r.lines.append(ln)
            for m, _ in parts:
                r.with_line[m] = first
            block(body, ind + 1)
        else:
            raise ValueError(k)

    block(prog["body"], 1 + base)
    if base:
        r.lines.append("    return prog")
        r.lines.append("prog = _factory()")
    return r
