"""Shared paths, interpreter discovery and small helpers for the /verif checks."""
from __future__ import annotations

import json
import os
import shutil
import subprocess
import sys
import time
from pathlib import Path

VERIF = Path(__file__).resolve().parent.parent
REPO = Path(os.environ.get("VERIF_REPO", "/repo"))
SPEC = VERIF / "spec"
BUILD = VERIF / ".build"
EVIDENCE = VERIF / "evidence"
VENDOR = BUILD / "vendor"
SHIM = VERIF / "harness" / "shim"
GUARD = "STACKSCOPE_VERIF"

VENV_PY = "/venv/bin/python"
PYENV = Path("/root/.pyenv/versions")
INTERPRETERS = {
    "3.12": VENV_PY,
    "3.11": str(PYENV / "3.11.7/bin/python"),
    "3.10": str(PYENV / "3.10.13/bin/python"),
    "3.9": str(PYENV / "3.9.18/bin/python"),
}


def seed() -> int:
    try:
        return int(os.environ.get("VERIF_SEED", "0"))
    except ValueError:
        return 0


def available_interpreters(want=("3.12", "3.11", "3.10", "3.9")):
    out = {}
    for v in want:
        p = INTERPRETERS[v]
        if os.path.exists(p):
            out[v] = p
    return out


def child_env(version: str, hooks: bool = True) -> dict:
    """Environment for running stackscope from /repo's working tree under a given interpreter."""
    env = dict(os.environ)
    paths = [str(REPO), str(VERIF)]
    if version != "3.12":
        paths.append(str(VENDOR))
        if version in ("3.9", "3.10"):
            paths.append(str(SHIM))
    env["PYTHONPATH"] = os.pathsep.join(paths)
    env["PYTHONHASHSEED"] = "0"
    env["PYTHONDONTWRITEBYTECODE"] = "1"
    if hooks:
        env[GUARD] = "1"
    else:
        env.pop(GUARD, None)
    return env


def scratch(name: str) -> Path:
    d = BUILD / name
    if d.exists():
        shutil.rmtree(d, ignore_errors=True)
    d.mkdir(parents=True, exist_ok=True)
    return d


class MachineryError(Exception):
    """The verification machinery itself failed (exit code 2) -- never a property violation."""


def run(cmd, *, timeout, env=None, cwd=None, input=None):
    t0 = time.time()
    try:
        p = subprocess.run(
            cmd, env=env, cwd=cwd, input=input, capture_output=True, text=True, timeout=timeout
        )
    except subprocess.TimeoutExpired as ex:
        raise MachineryError(f"timeout after {timeout}s: {cmd!r}") from ex
    return p, time.time() - t0


def dump_json(path: Path, obj) -> None:
    path.parent.mkdir(parents=True, exist_ok=True)
    tmp = path.with_suffix(path.suffix + ".tmp")
    tmp.write_text(json.dumps(obj, indent=1, sort_keys=False, default=str))
    tmp.replace(path)
