#!/bin/bash
# usage: seedtest.sh <seed-id> <dir with patch.diff demo.py meta.json> <check> [<check> ...]
# Confirms a seeded change: repo tests still pass with it, the demo fails with it and passes without it; then runs the
# given checks against it.  Works in a scratch worktree of /repo (VERIF_REPO points the checks at it), so /repo itself
# and any background run using it are not disturbed; the worktree is removed afterwards.
set -u
id=$1; src=$2; shift 2
dst=/verif/seeded/$id
mkdir -p $dst
if [ "$src" != "$dst" ]; then cp $src/patch.diff $src/demo.py $src/meta.json $dst/ 2>/dev/null; fi
wt=/tmp/seedwt_$$
git -C /repo worktree add -q --detach $wt HEAD || exit 2
trap 'git -C /repo worktree remove --force '$wt' 2>/dev/null; git -C /repo worktree prune' EXIT
echo "== demo on unchanged tree"; (cd $dst && PYTHONPATH=$wt timeout 300 /venv/bin/python demo.py >/tmp/seed_demo0.out 2>&1; echo "exit $?"; tail -1 /tmp/seed_demo0.out | cut -c1-200)
if ! git -C $wt apply --whitespace=nowarn $dst/patch.diff; then echo "PATCH DOES NOT APPLY"; exit 2; fi
echo "== repo tests with the change"; (cd $wt && env -u STACKSCOPE_VERIF /venv/bin/python -m pytest -q -p no:cacheprovider 2>&1 | tail -1)
echo "== demo with the change"; (cd $dst && PYTHONPATH=$wt timeout 300 /venv/bin/python demo.py >/tmp/seed_demo1.out 2>&1; echo "exit $?"; tail -2 /tmp/seed_demo1.out | cut -c1-300)
cd /verif
for c in "$@"; do
  echo "== check $c with the change"
  VERIF_REPO=$wt timeout 1800 ./check $c > /tmp/seed_check_$c.out 2>&1; echo "exit $?"
  grep -E "^(VIOLATION|KNOWN-FINDING|OK|MACHINERY)" /tmp/seed_check_$c.out | cut -c1-300
  grep -m2 "detail:" /tmp/seed_check_$c.out | cut -c1-400
done
