#!/bin/bash
# usage: seedtest.sh <seed-id> <worktree> <check> [<check> ...]
# Confirms a seeded change (patch.diff + demo.py from a sub-agent's scratch worktree): repo tests still pass with
# it, the demo fails with it and passes without it; then runs the given checks against it.  /repo is restored.
set -u
id=$1; wt=$2; shift 2
dst=/verif/seeded/$id
mkdir -p $dst
cp $wt/patch.diff $wt/demo.py $wt/meta.json $dst/ 2>/dev/null
cd /repo
if ! git diff --quiet; then echo "REPO DIRTY"; exit 2; fi
echo "== demo on unchanged tree"; (cd $dst && PYTHONPATH=/repo timeout 300 /venv/bin/python demo.py >/tmp/seed_demo0.out 2>&1; echo "exit $?"; tail -2 /tmp/seed_demo0.out)
if ! git apply --whitespace=nowarn $dst/patch.diff; then echo "PATCH DOES NOT APPLY"; exit 2; fi
echo "== repo tests with the change"; env -u STACKSCOPE_VERIF /venv/bin/python -m pytest -q -p no:cacheprovider 2>&1 | tail -1
echo "== demo with the change"; (cd $dst && PYTHONPATH=/repo timeout 300 /venv/bin/python demo.py >/tmp/seed_demo1.out 2>&1; echo "exit $?"; tail -2 /tmp/seed_demo1.out)
cd /verif
for c in "$@"; do
  echo "== check $c with the change"
  timeout 1800 ./check $c > /tmp/seed_check_$c.out 2>&1; echo "exit $?"
  grep -E "^(VIOLATION|KNOWN-FINDING|OK|MACHINERY)" /tmp/seed_check_$c.out | cut -c1-300
  grep -m2 "detail:" /tmp/seed_check_$c.out | cut -c1-400
done
git -C /repo checkout -- . ; git -C /repo status --short | head -3
