"""Parse every TLA+ module under /verif/spec with SANY; a spec that does not parse fails setup."""
import sys
from concurrent.futures import ThreadPoolExecutor

from .common import SPEC
from .tlc import sany


def main() -> int:
    mods = sorted(SPEC.glob("*.tla"))
    with ThreadPoolExecutor(8) as ex:
        list(ex.map(sany, mods))
    print(f"SANY ok: {len(mods)} modules")
    return 0


if __name__ == "__main__":
    sys.exit(main())
