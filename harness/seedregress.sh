#!/bin/bash
# (works from whatever copy of /verif it is started in: a vp run snapshot keeps its own .build and evidence)
# usage: seedregress.sh [seed-id ...]   -- re-runs every seeded change (or the named ones) against its property's quick check,
# each in a scratch worktree of /repo (VERIF_REPO); prints one line per seed: DETECTED / MISSED / MACHINERY / NOAPPLY
cd "$(dirname "$0")/.." || exit 2
V=$(pwd)
[ -d .build/vendor ] || ./setup.sh > /tmp/seedreg_setup.out 2>&1
ids="$@"; [ -z "$ids" ] && ids=$(ls seeded)
for id in $ids; do
  prop=${id%%-*}
  # a change that breaks another property than the one it was written for is run against that property's check
  by=$(python3 -c "import json,sys;print(json.load(open(sys.argv[1])).get('detected_by',''))" $V/seeded/$id/meta.json 2>/dev/null)
  [ -n "$by" ] && prop=$by
  wt=/tmp/seedreg_$$_$id
  git -C /repo worktree add -q --detach $wt HEAD || { echo "$id WORKTREE-FAILED"; continue; }
  if ! git -C $wt apply --whitespace=nowarn $V/seeded/$id/patch.diff 2>/dev/null; then
    echo "$id NOAPPLY"
  else
    VERIF_REPO=$wt timeout 3000 ./check $prop > /tmp/seedreg_$id.out 2>&1; rc=$?
    case $rc in 1) r=DETECTED;; 0) r=MISSED;; *) r="MACHINERY(rc=$rc)";; esac
    if grep -q '"obsolete"' $V/seeded/$id/meta.json; then r="$r (OBSOLETE: no longer breaks the property, see meta.json)"; fi
    echo "$id $r $(grep -m1 'detail:' /tmp/seedreg_$id.out | cut -c1-160)"
  fi
  git -C /repo worktree remove --force $wt 2>/dev/null; git -C /repo worktree prune
done
