"""F12 reproduction on the real code: an item whose unwrap result refers twice to itself.  The guard trips
(an error is recorded) but extraction does not end; we abort it from the hook with a BaseException after
2000 calls.  Prints one JSON line {"hang": bool, "calls": n}."""
import json
import stackscope


class Abort(BaseException):
    pass


class X:
    calls = 0


x = X()


@stackscope.unwrap_stackitem.register(X)
def _(item):
    X.calls += 1
    if X.calls > 2000:
        raise Abort()
    return [item, item]


try:
    st = stackscope.extract(x, with_contexts=False)
    print(json.dumps({"hang": False, "calls": X.calls, "error": repr(st.error)[:200]}))
except Abort:
    print(json.dumps({"hang": True, "calls": X.calls}))
