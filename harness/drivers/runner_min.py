"""Replay runner for M7 (WithLang): executes TLC's behaviours of the statement language in the real
interpreter and compares, at every suspension / probe, what stackscope reports with the observation the
specification owes at that instant.  stdlib-only; runs under CPython 3.9 .. 3.12.

usage: runner_min.py <programs.json> <behaviours.json> <out.json> <mode> [shard i n]
mode: "suspended" (C01, C08), "referents" (C20), "running" (C02), "purity" (C06)"""
import contextlib
import gc
import io
import json
import os
import sys
import types
import warnings
import weakref

sys.path.insert(0, os.path.dirname(os.path.dirname(os.path.dirname(os.path.abspath(__file__)))))
import stackscope  # noqa: E402
from stackscope import lowlevel  # noqa: E402
from harness import progs as P  # noqa: E402

PY = sys.version_info[:2]


class Boom(Exception):
    pass


class Job:
    """a custom stack item wrapping a generator / coroutine: its unwrap hook returns the wrapped object as a single item"""

    def __init__(self, obj):
        self.obj = obj


@stackscope.unwrap_stackitem.register(Job)
def _unwrap_job(job):
    return job.obj


class GroundTruthMismatch(Exception):
    """the real interpreter did not follow the specification's behaviour: the MODEL is wrong (exit 2)"""


@types.coroutine
def _trap():
    yield "S"


class NS:
    pass


def build_value(shape, obj):
    if shape == "self" or shape == "s":
        return obj
    return tuple(build_value(x, obj) for x in shape)


class Env:
    never = False
    Boom = Boom

    def __init__(self, rendered, beh, running, checker):
        self.r = rendered
        self.path = list(beh["path"])
        self.pi = 0
        self.mse = beh["mse"] and not running
        self.hist = beh["hist"]
        self.cur = 0
        self.running = running
        self.checker = checker
        self.by_id = {}
        self.keep = []
        self.log = []
        self.ns = NS()
        self.ns.sub = NS()
        self.d = {"n": {}}
        self.lst = [None]
        self.prog_frame = None
        self.pid = beh.get("pid", 0)
        self.last_rm = None

    # ---- program services
    def c(self):
        if self.pi < len(self.path):
            v = self.path[self.pi]
            self.pi += 1
            return v
        return False

    def nop(self, *a):
        return None

    def sel(self):
        """subject of a match statement: consumes branch outcomes like the nested conditional it stands for"""
        return 1 if self.c() else (2 if self.c() else 3)

    def value(self):
        return NS()

    def get(self, *a, **k):
        return self.d if len(a) == 2 else self.ns

    def sd(self, *a):
        return self.d.setdefault(a[0], {})

    def trap(self):
        return _trap()

    def mk(self, i):
        # a RE-ENTRANT manager entered once more, directly inside itself (like an RLock): one object, two open blocks
        prev = self.last_rm
        if (prev is not None and prev.entered and prev.entered[-1] == i - 1 and prev.is_async == self.r.is_async[i]
                and self.r.shape[i] == "self" and not self.r.enter_raises[i]):
            prev.pending.append(i)
            return prev
        if ((i + self.pid) % 6 == 1 and i % 4 != 3 and self.r.shape[i] == "self" and not self.r.enter_raises[i]):
            m = (ARM if self.r.is_async[i] else RM)(self, i, self.r.shape[i])
            self.last_rm = m
            self.by_id[id(m)] = i
            self.keep.append(m)
            return m
        if i % 4 == 3:
            m = make_gcm(self, i, self.r.shape[i], self.r.is_async[i])     # generator-based manager
        else:
            if i % 4 == 2 and self.checker.mode not in ("referents", "trickfault"):
                # aliased enter/exit methods; not in the fallback modes: the referents implementation recognises exit
                # methods by their function name, a documented limitation outside C20's program space
                cls = AM2 if self.r.is_async[i] else M2
            elif ((i + self.pid) % 7 == 3 and not self.r.is_async[i] and self.r.shape[i] == "self"
                  and not self.r.enter_raises[i]):
                cls = MC        # __enter__ / __exit__ implemented in C (there is no Python frame of the method itself)
            elif (i + self.pid) % 5 == 0 and not self.r.is_async[i]:
                cls = ES        # an ExitStack (its glue hook elaborates the Context: obj / varname / start_line must survive)
            elif i % 4 == 1 and self.r.is_async[i]:
                cls = AM3       # plain-def __aenter__/__aexit__ returning an awaitable: `async with` is decided by the statement
            else:
                cls = AM if self.r.is_async[i] else M
            m = cls(self, i, self.r.shape[i])
        self.by_id[id(m)] = i
        self.keep.append(m)
        return m

    # ---- the specification's behaviour as an event cursor
    def expect(self, e, m, w=None):
        """consume the next event of the spec's history; it must be (e, m)"""
        while self.cur < len(self.hist):
            ev = self.hist[self.cur]
            if ev["e"] == "probe" and not self.running and e != "probe":
                self.cur += 1
                continue
            break
        if self.cur >= len(self.hist):
            raise GroundTruthMismatch("real event %s(%s) after the end of the spec history" % (e, m))
        ev = self.hist[self.cur]
        ok = ev["e"] == e and (m is None or ev["m"] == m)
        if e == "probe":
            ok = ev["e"] in ("probe", "susp") and ev["w"] == "body"
        if not ok:
            raise GroundTruthMismatch("real event %s(%s) but spec history has %s(%s) at %d" % (e, m, ev["e"], ev["m"], self.cur))
        if w is not None and e == "exit" and (ev["w"] == "raise") != (w == "raise"):
            raise GroundTruthMismatch("exit of %s: spec pending %s, real %s" % (m, ev["w"], w))
        self.cur += 1
        self.log.append((e, m))
        return ev

    def finish(self):
        while self.cur < len(self.hist) and self.hist[self.cur]["e"] == "probe" and not self.running:
            self.cur += 1
        if self.cur != len(self.hist):
            raise GroundTruthMismatch("program ended but the spec history has %d more events" % (len(self.hist) - self.cur))

    # ---- running-mode probes (C02)
    def probe(self, *three_nones):
        ev = self.expect("probe", 0)
        self.checker.check_running(self, ev, "body", sys._getframe(1))

    def inner_probe(self, ev, kind, depth_frame):
        if self.running:
            self.checker.check_running(self, ev, kind, depth_frame)
            self._deeper(ev, kind)

    def _deeper(self, ev, kind):
        self.checker.check_running(self, ev, kind + "+1", None)


class M:
    def __init__(self, env, i, shape):
        self.env, self.i, self.shape = env, i, shape

    def __bool__(self):
        return False          # managers are falsy objects: presence must never be decided by truthiness

    def __enter__(self):
        ev = self.env.expect("enter", self.i)
        self.env.inner_probe(ev, "enter", None)
        if self.env.r.enter_raises[self.i]:
            self.env.expect("enter_raised", self.i)
            raise Boom()
        self.env.expect("entered", self.i)
        return build_value(self.shape, self)

    def __exit__(self, *exc):
        ev = self.env.expect("exit", self.i, "raise" if exc[0] is not None else "other")
        self.env.inner_probe(ev, "exit", None)
        self.env.expect("exited", self.i)
        if self.env.r.exit_raises[self.i]:
            raise Boom()
        return self.i % 3 == 0


class RM(M):
    """re-entrant: may be entered again while it is entered; `entered` lists the ids of its open blocks, outermost first"""
    is_async = False

    def __init__(self, env, i, shape):
        M.__init__(self, env, i, shape)
        self.pending, self.entered, self.current = [i], [], None

    def __enter__(self):
        i = self.current = self.pending.pop(0)
        ev = self.env.expect("enter", i)
        self.env.inner_probe(ev, "enter", None)
        self.env.expect("entered", i)
        self.entered.append(i)
        self.current = None
        return self

    def __exit__(self, *exc):
        i = self.entered[-1]
        ev = self.env.expect("exit", i, "raise" if exc[0] is not None else "other")
        self.env.inner_probe(ev, "exit", None)
        self.env.expect("exited", i)
        self.entered.pop()
        if self.env.r.exit_raises[i]:
            raise Boom()
        return i % 3 == 0


class MC(io.StringIO):
    """a manager whose __enter__ and __exit__ are C functions (io's): `with` calls builtin methods, and the frame inward of
    the program's is not that of a function called __enter__ / __exit__.  The C code calls back into Python -- __enter__
    reads self.closed, __exit__ calls self.close() and returns its result -- which is where the event protocol lives."""

    def __init__(self, env, i, shape):
        io.StringIO.__init__(self)
        self.env, self.i, self.shape = env, i, shape
        self.stage = "new"

    @property
    def closed(self):
        if getattr(self, "stage", None) == "new":
            self.stage = "entering"
            ev = self.env.expect("enter", self.i)
            self.env.inner_probe(ev, "enter", None)
            self.env.expect("entered", self.i)
            self.stage = "entered"
        return False

    def close(self):
        if getattr(self, "stage", None) != "entered":
            return False
        self.stage = "exiting"
        ev = self.env.expect("exit", self.i)
        self.env.inner_probe(ev, "exit", None)
        self.env.expect("exited", self.i)
        self.stage = "done"
        if self.env.r.exit_raises[self.i]:
            raise Boom()
        return self.i % 3 == 0


class AM:
    def __init__(self, env, i, shape):
        self.env, self.i, self.shape = env, i, shape

    def __bool__(self):
        return False

    async def __aenter__(self):
        ev = self.env.expect("enter", self.i)
        self.env.inner_probe(ev, "enter", None)
        if self.env.mse:
            await self.env.trap()
        if self.env.r.enter_raises[self.i]:
            self.env.expect("enter_raised", self.i)
            raise Boom()
        self.env.expect("entered", self.i)
        return build_value(self.shape, self)

    async def __aexit__(self, *exc):
        ev = self.env.expect("exit", self.i, "raise" if exc[0] is not None else "other")
        self.env.inner_probe(ev, "exit", None)
        if self.env.mse:
            await self.env.trap()
        self.env.expect("exited", self.i)
        if self.env.r.exit_raises[self.i]:
            raise Boom()
        return self.i % 3 == 0


class ARM(AM):
    is_async = True

    def __init__(self, env, i, shape):
        AM.__init__(self, env, i, shape)
        self.pending, self.entered, self.current = [i], [], None

    async def __aenter__(self):
        i = self.current = self.pending.pop(0)
        ev = self.env.expect("enter", i)
        self.env.inner_probe(ev, "enter", None)
        if self.env.mse:
            await self.env.trap()
        self.env.expect("entered", i)
        self.entered.append(i)
        self.current = None
        return self

    async def __aexit__(self, *exc):
        i = self.entered[-1]
        ev = self.env.expect("exit", i, "raise" if exc[0] is not None else "other")
        self.env.inner_probe(ev, "exit", None)
        if self.env.mse:
            await self.env.trap()
        self.env.expect("exited", i)
        self.entered.pop()
        if self.env.r.exit_raises[i]:
            raise Boom()
        return i % 3 == 0


def _parked_gen():
    yield "parked"


_PARKED = _parked_gen()
next(_PARKED)


def _reentrant_elaborate(mgr, context):
    """every Python-level manager of the corpus has an elaborate_context hook that RE-ENTERS the public API (as the
    documentation of unwrap_context_generator suggests hooks may): the enclosing extraction must carry on with its own
    options afterwards"""
    stackscope.extract_outermost(_PARKED, with_contexts=False, recurse_child_tasks=True)
    # ... and resolves a callable bound to the target's manager, as a hook about to register something would: the
    # library may remember the code object, not the bound method (and with it the manager)
    if not isinstance(mgr, MC):          # (a builtin method has no code object: get_code rightly refuses it)
        lowlevel.get_code(getattr(mgr, "__exit__", None) or mgr.__aexit__)


stackscope.elaborate_context.register(M)(_reentrant_elaborate)
stackscope.elaborate_context.register(AM)(_reentrant_elaborate)
stackscope.elaborate_context.register(MC)(_reentrant_elaborate)


class M2(M):
    """same behaviour, but __enter__/__exit__ are aliases of differently named functions"""

    def _come(self):
        return M.__enter__(self)

    def _leave(self, *exc):
        return M.__exit__(self, *exc)

    __enter__ = _come
    __exit__ = _leave


class AM2(AM):
    async def _acome(self):
        return await AM.__aenter__(self)

    async def _aleave(self, *exc):
        return await AM.__aexit__(self, *exc)

    __aenter__ = _acome
    __aexit__ = _aleave


class ES(contextlib.ExitStack):
    """an ExitStack that follows the specification's event protocol like M does"""

    def __init__(self, env, i, shape):
        super().__init__()
        self.env, self.i, self.shape = env, i, shape
        self.callback(divmod, 7, 2)

    def __bool__(self):
        return False

    def __enter__(self):
        ev = self.env.expect("enter", self.i)
        self.env.inner_probe(ev, "enter", None)
        if self.env.r.enter_raises[self.i]:
            self.env.expect("enter_raised", self.i)
            raise Boom()
        self.env.expect("entered", self.i)
        super().__enter__()
        return build_value(self.shape, self)

    def __exit__(self, *exc):
        ev = self.env.expect("exit", self.i, "raise" if exc[0] is not None else "other")
        self.env.inner_probe(ev, "exit", None)
        self.env.expect("exited", self.i)
        super().__exit__(*exc)
        if self.env.r.exit_raises[self.i]:
            raise Boom()
        return self.i % 3 == 0


class AM3(AM):
    """an async manager whose __aenter__/__aexit__ are PLAIN functions that return an awaitable (delegation):
    whether a context is async is a fact about the with statement, not about how the manager is written"""

    def __aenter__(self):
        return AM.__aenter__(self)

    def __aexit__(self, *exc):
        return AM.__aexit__(self, *exc)


GCM_CODES = set()


class Inner:
    """the manager a generator-based manager's generator holds itself (no part of the specification's history)"""

    def __init__(self, i):
        self.i = i

    def __bool__(self):
        return False

    def __enter__(self):
        return self

    def __exit__(self, *exc):
        return False


def check_gcm_frames(checker, frames, where):
    """frames of the sync generator-based managers, wherever they appear: contexts == [their own Inner manager]"""
    for f in frames:
        if f.pyframe.f_code in GCM_CODES:
            cs = list(f.contexts)
            ok = (len(cs) == 1 and isinstance(cs[0].obj, Inner) and not cs[0].is_exiting and not cs[0].is_async
                  and cs[0].obj is f.pyframe.f_locals.get("_inner"))
            # before the generator has entered its with block (the frame is at its very start) there is nothing to report
            if not ok and not (not cs and f.pyframe.f_locals.get("_inner") is None):
                checker.bad("contexts of the generator frame of a generator-based manager (%s): %s, expected its own manager"
                            % (where, [(type(c.obj).__name__, c.is_exiting) for c in cs]))
                return


async def _via(aw):
    return await aw


def _gcm_enter(env, i):
    ev = env.expect("enter", i)
    env.inner_probe(ev, "enter", None)
    return ev


def _gcm_exit(env, i, raised):
    ev = env.expect("exit", i, "raise" if raised else "other")
    env.inner_probe(ev, "exit", None)


def make_gcm(env, i, shape, is_async):
    """a manager made by @contextmanager / @asynccontextmanager (the probes run inside the generator's frame,
    underneath contextlib's own __enter__/__exit__ frames)"""
    import contextlib
    holder = []
    if not is_async:
        @contextlib.contextmanager
        def g():
            # the generator holds a manager of its own for its whole life: wherever this frame shows up (inner stack of
            # the context, or the main frame series while the manager exits) its contexts are exactly [that manager]
            with Inner(i) as _inner:  # noqa: F841
                _gcm_enter(env, i)
                if env.r.enter_raises[i]:
                    env.expect("enter_raised", i)
                    raise Boom()
                env.expect("entered", i)
                try:
                    yield build_value(shape, holder[0])
                except BaseException:
                    _gcm_exit(env, i, True)
                    env.expect("exited", i)
                    if env.r.exit_raises[i]:
                        raise Boom()
                    if i % 3 == 0:
                        return
                    raise
                _gcm_exit(env, i, False)
                env.expect("exited", i)
                if env.r.exit_raises[i]:
                    raise Boom()
        GCM_CODES.add(g.__wrapped__.__code__)
    else:
        @contextlib.asynccontextmanager
        async def g():
            _gcm_enter(env, i)
            if env.mse:
                await env.trap()
            if env.r.enter_raises[i]:
                env.expect("enter_raised", i)
                raise Boom()
            env.expect("entered", i)
            try:
                yield build_value(shape, holder[0])
            except BaseException:
                _gcm_exit(env, i, True)
                if env.mse:
                    await env.trap()
                env.expect("exited", i)
                if env.r.exit_raises[i]:
                    raise Boom()
                if i % 3 == 0:
                    return
                raise
            _gcm_exit(env, i, False)
            if env.mse:
                await env.trap()
            env.expect("exited", i)
            if env.r.exit_raises[i]:
                raise Boom()
    if not is_async and not _UCG_REGISTERED:
        # the SYNC generator-based managers have a (do-nothing) unwrap_context_generator hook: for an exiting one the
        # contextlib glue then makes a nested extract_outermost() call in the middle of the outer extraction
        stackscope.unwrap_context_generator.register(g.__wrapped__)(_noop_ucg)
        _UCG_REGISTERED.append(True)
    m = g()
    holder.append(m)
    return m


_UCG_REGISTERED = []


def _noop_ucg(frame, context):
    return None


# ------------------------------------------------------------------ comparison
def expected_contexts(ev, rendered):
    return [(m, rendered.is_async[m], m == ev["ex"]) for m in ev["act"]]


def observed_contexts(env, contexts):
    out = []
    seen = {}
    for c in contexts:
        mid = env.by_id.get(id(c.obj)) if c.obj is not None else None
        blocks = getattr(c.obj, "entered", None) if isinstance(c.obj, (RM, ARM)) else None
        if blocks is not None:
            # a re-entrant manager: its k-th occurrence stands for its k-th open block (outermost first)
            k = seen.get(id(c.obj), 0)
            seen[id(c.obj)] = k + 1
            if k < len(blocks):
                mid = blocks[k]
            elif c.obj.current is not None:
                mid = c.obj.current           # the block it is being entered for right now
            elif blocks:
                mid = blocks[-1]              # one occurrence too many: if legitimate at all, the block being left
        out.append((mid, bool(c.is_async), bool(c.is_exiting)))
    return out


def target_matches(varname, tsrc):
    import ast
    try:
        a = ast.parse(varname, mode="eval").body
        b = ast.parse(tsrc, mode="eval").body
    except SyntaxError:
        return False

    def norm(n):
        for x in ast.walk(n):
            if hasattr(x, "ctx"):
                x.ctx = ast.Load()
        # list-unpacking targets are rendered as tuples by design
        class L2T(ast.NodeTransformer):
            def visit_List(self, node):
                self.generic_visit(node)
                return ast.Tuple(elts=node.elts, ctx=ast.Load())
        return ast.dump(L2T().visit(n))
    return norm(a) == norm(b)


class Checker:
    def __init__(self, mode):
        self.mode = mode
        self.mismatches = []
        self.observations = 0
        self.exit_observations = 0
        self.meta_checked = 0
        self.site = None

    def bad(self, what, **kw):
        d = {"what": what}
        d.update(self.site or {})
        d.update(kw)
        self.mismatches.append(d)

    # ---- suspended frames (C01 / C08 / C20)
    def check_suspended(self, env, ev, obj, origin_kind, owner=None):
        self.observations += 1
        if ev["ex"]:
            self.exit_observations += 1
        exp = expected_contexts(ev, env.r)
        with warnings.catch_warnings(record=True) as wl:
            warnings.simplefilter("always")
            try:
                st = stackscope.extract(obj)
            except BaseException as ex:
                self.bad("extract raised %r" % (ex,))
                return None
        lead = 1 if origin_kind == "agenv" else 0       # the driving coroutine's frame comes first
        if len(st.frames) <= lead or st.frames[lead].funcname != "prog" or (lead and st.frames[0].funcname != "_via"):
            self.bad("first frame is not the program's frame: %s" % [f.funcname for f in st.frames])
            return st
        fr = st.frames[lead]
        if lead:
            st = stackscope.Stack(root=st.root, frames=st.frames[lead:], leaf=st.leaf, error=st.error)
            obj = owner
        got = observed_contexts(env, fr.contexts)
        wtexts = [str(w.message)[:160] for w in wl if issubclass(w.category, RuntimeWarning)]
        info = dict(exp=exp, got=got, w=ev["w"], ex=ev["ex"], warnings=wtexts,
                    lasti=fr.pyframe.f_lasti, lineno=fr.lineno)
        if self.mode == "trickfault":
            self.check_trickfault(env, ev, exp, st, obj, info)
        elif self.mode == "referents":
            self.check_referents(env, ev, exp, got, info)
        else:
            if wtexts:
                self.bad("InspectionWarning", **info)
            elif got != exp:
                self.bad("contexts differ", **info)
            else:
                self.check_metadata(env, fr, info)
                self.observations_ok = getattr(self, "observations_ok", 0) + 1
                if self.mode == "suspended" and self.observations_ok % 4 == 1:
                    self.check_after_failure(env, fr, obj, st, info)
            if st.error is not None:
                self.bad("Stack.error %r" % (st.error,), **info)
        # the low-level entry point must agree with Frame.contexts
        try:
            with warnings.catch_warnings(record=True):
                warnings.simplefilter("always")
                nxt = st.frames[1].pyframe if len(st.frames) > 1 else None
                low = lowlevel.contexts_active_in_frame(fr.pyframe, obj, nxt)
            lowobs = observed_contexts(env, low)
            if lowobs != got:
                self.bad("lowlevel.contexts_active_in_frame disagrees with Frame.contexts", low=lowobs, **info)
        except BaseException as ex:
            self.bad("contexts_active_in_frame raised %r" % (ex,), **info)
        if self.mode not in ("referents", "trickfault"):
            check_gcm_frames(self, st.frames[1:], "suspended target, main frame series")
            for c in fr.contexts:
                if c.inner_stack is not None:
                    check_gcm_frames(self, c.inner_stack.frames, "inner stack")
        return st

    def check_released(self, obj):
        """C06: extractions that FAIL release the target too.  The frame of a suspended target runs nowhere, so
        extract_since / extract_until / a StackSlice naming it end with a recorded error; once those Stacks are dropped
        the frame object must be referenced exactly as before."""
        fr = getattr(obj, "gi_frame", None) or getattr(obj, "cr_frame", None) or getattr(obj, "ag_frame", None)
        if fr is None or getattr(self, "released_checked", False):
            return
        self.released_checked = True          # once per run (first observed suspension): the collection below is not free
        gc.collect(0)
        rc0 = sys.getrefcount(fr)
        with warnings.catch_warnings(record=True):
            warnings.simplefilter("always")
            try:
                a = stackscope.extract_since(fr)
                b = stackscope.extract(stackscope.StackSlice(outer=fr))
                c = stackscope.extract(stackscope.StackSlice(outer=fr, limit=1))
            except BaseException as ex:
                self.bad("extraction of a slice naming the suspended frame raised %r" % (ex,))
                return
        if a.error is None or b.error is None:
            self.bad("a slice starting at a frame that runs nowhere gave no error")
        del a, b, c
        gc.collect(0)                         # the recorded error sits in a reference cycle with its own traceback
        rc1 = sys.getrefcount(fr)
        if rc1 != rc0:
            gc.collect()
            rc1 = sys.getrefcount(fr)
        if rc1 != rc0:
            self.bad("the target's frame is referenced %d times after failed extractions were dropped, %d before "
                     "(stackscope retains it)" % (rc1, rc0))

    def check_metadata(self, env, fr, info):
        """C08: start_line and varname of every reported context"""
        for c, (m, _, _) in zip(fr.contexts, info["exp"]):
            self.meta_checked += 1
            want_line = env.r.with_line[m]
            if c.start_line != want_line:
                self.bad("start_line %s, the with keyword of manager %d is on line %d" % (c.start_line, m, want_line),
                         meta=True, tgt=env.r.target[m], **info)
            tsrc = env.r.target[m]
            vn = c.varname
            if vn is None:
                if tsrc and env.r.supported[m]:
                    self.bad("varname dropped for supported target %r" % tsrc, meta=True, tgt=tsrc, **info)
            elif tsrc:
                loc = fr.pyframe.f_locals
                if not env.r.supported[m] and vn in loc and loc[vn] is c.obj:
                    continue        # no reconstructible target: the name of a local bound to the manager is allowed
                if not target_matches(vn, tsrc):
                    self.bad("varname %r does not parse to the target %r" % (vn, tsrc), meta=True, tgt=tsrc, **info)
            else:
                loc = fr.pyframe.f_locals
                if not (vn in loc and loc[vn] is c.obj):
                    self.bad("varname %r for an item without target is not a local bound to the manager" % vn, meta=True, tgt=tsrc, **info)

    def check_after_failure(self, env, fr, obj, st, info):
        """C01 whatever happened BEFORE: the analysis of this very frame is made to fail once (it warns and falls back),
        then the frame is looked at again, undisturbed -- the answer must be the exact one again, metadata included"""
        from stackscope import _lowlevel
        import contextlib
        import io
        nxt = st.frames[1].pyframe if len(st.frames) > 1 else None
        orig = _lowlevel.inspect_frame

        def faulty(*a, **k):
            raise RuntimeError("injected fault in inspect_frame")
        _lowlevel.inspect_frame = faulty
        try:
            with warnings.catch_warnings(record=True), contextlib.redirect_stderr(io.StringIO()):
                warnings.simplefilter("always")
                lowlevel.contexts_active_in_frame(fr.pyframe, obj, nxt)
        except BaseException as ex:
            self.bad("a fault inside the analysis made contexts_active_in_frame raise %r" % (ex,), **info)
        finally:
            _lowlevel.inspect_frame = orig
        with warnings.catch_warnings(record=True) as wl:
            warnings.simplefilter("always")
            again = lowlevel.contexts_active_in_frame(fr.pyframe, obj, nxt)
        first = [(c.obj, c.is_async, c.is_exiting, c.start_line, c.varname) for c in fr.contexts]
        second = [(c.obj, c.is_async, c.is_exiting, c.start_line, c.varname) for c in again]
        # (the exiting entry's obj is filled in by extract from the next frame as well: compare what both have)
        if [w for w in wl if issubclass(w.category, RuntimeWarning)] or [x[1:] for x in first] != [x[1:] for x in second]:
            self.bad("after one failed analysis of this frame, an undisturbed one no longer gives the exact answer: %s, before %s"
                     % ([x[1:] for x in second], [x[1:] for x in first]), **info)

    def check_trickfault(self, env, ev, exp, st, obj, info):
        """C20: an exception at any internal step of the trickery analysis must only warn (InspectionWarning) and
        fall back to a result that obeys the referents rule"""
        from stackscope import _lowlevel
        fr = st.frames[0]
        nxt = st.frames[1].pyframe if len(st.frames) > 1 else None
        for fname in ("analyze_with_blocks", "inspect_frame", "currently_exiting_context"):
            orig = getattr(_lowlevel, fname)
            state = {"fired": False}

            def faulty(*a, _orig=orig, _state=state, **k):
                if not _state["fired"]:
                    _state["fired"] = True
                    raise RuntimeError("injected fault in " + fname)
                return _orig(*a, **k)
            setattr(_lowlevel, fname, faulty)
            try:
                import contextlib, io
                with warnings.catch_warnings(record=True) as wl, contextlib.redirect_stderr(io.StringIO()):
                    warnings.simplefilter("always")
                    try:
                        low = lowlevel.contexts_active_in_frame(fr.pyframe, obj, nxt)
                    except BaseException as ex:
                        self.bad("fault in %s: contexts_active_in_frame raised %r" % (fname, ex), **info)
                        continue
            finally:
                setattr(_lowlevel, fname, orig)
            if not state["fired"]:
                continue
            self.fault_points = getattr(self, "fault_points", 0) + 1
            cats = [w.category.__name__ for w in wl]
            if not cats or any(c != "InspectionWarning" for c in cats):
                self.bad("fault in %s: expected exactly InspectionWarning(s), got %s" % (fname, cats), **info)
            got = observed_contexts(env, low)
            info2 = dict(info, got=got, warnings=[])
            n0 = len(self.mismatches)
            self.check_referents(env, ev, exp, got, info2)
            for mm in self.mismatches[n0:]:
                mm["what"] = "fault in %s: %s" % (fname, mm["what"])

    def check_referents(self, env, ev, exp, got, info):
        """C20: ordered super-sequence; extras only the entering / exiting manager; is_exiting iff exit in progress"""
        entering = ev["m"] if ev["w"] == "enter" else None
        i = 0
        extras = []
        for g in got:
            if i < len(exp) and g[0] == exp[i][0] and g[1] == exp[i][1]:
                i += 1
            else:
                extras.append(g)
        if i != len(exp):
            self.bad("referents: a truly active manager is missing or out of order", **info)
            return
        n_exit = sum(1 for g in got if g[2])
        if (ev["ex"] != 0) != (n_exit >= 1) or n_exit > 1:
            self.bad("referents: is_exiting entries %d, exit in progress %s" % (n_exit, ev["ex"] != 0), **info)
            return
        for g in extras:
            if g[0] is not None and g[0] not in (entering, ev["ex"]):
                self.bad("referents: extra entry %r is neither the entering nor the exiting manager" % (g,), **info)
                return
        for g, e in zip([g for g in got if g[2]], [e for e in exp if e[2]]):
            if g[0] is not None and g[0] != e[0]:
                self.bad("referents: exiting entry names the wrong manager", **info)
        if any("trickery" in w.lower() for w in info["warnings"]):
            self.bad("referents: trickery warning although trickery is disabled", **info)

    # ---- running frames (C02)
    def check_running(self, env, ev, kind, caller):
        self.observations += 1
        if ev["ex"]:
            self.exit_observations += 1
        exp = expected_contexts(ev, env.r)
        target = env.prog_frame
        f = sys._getframe(1)
        while f is not None and f.f_code.co_name != "prog":
            f = f.f_back
        target = f
        if target is None:
            self.bad("harness: program frame not found")
            return
        with warnings.catch_warnings(record=True) as wl:
            warnings.simplefilter("always")
            try:
                st = stackscope.extract_since(target)
            except BaseException as ex:
                self.bad("extract_since raised %r" % (ex,), w=kind)
                return
        wtexts = [str(w.message)[:160] for w in wl if issubclass(w.category, RuntimeWarning)]
        if not st.frames or st.frames[0].pyframe is not target:
            self.bad("first frame is not the program frame", w=kind)
            return
        got = observed_contexts(env, st.frames[0].contexts)
        info = dict(exp=exp, got=got, w=kind, ex=ev["ex"], warnings=wtexts, lasti=target.f_lasti, lineno=st.frames[0].lineno)
        if wtexts:
            self.bad("InspectionWarning", **info)
        elif got != exp:
            self.bad("contexts differ", **info)
        else:
            self.check_metadata(env, st.frames[0], info)
            check_gcm_frames(self, st.frames[1:], "running, inward of the program frame")


# ------------------------------------------------------------------ execution
def compile_prog(prog, carrier, running):
    r = P.render(prog, "agen" if carrier == "agenv" else carrier, running=running, py=PY)
    ns = {}
    try:
        code = compile(r.source, "<verif-prog>", "exec")
    except SyntaxError as ex:
        return None, r, "syntax: %s" % ex
    for k in range(300):
        ns["G%d" % k] = k
    exec(code, ns)
    return ns["prog"], r, None


def drive_suspended(fn, r, beh, carrier, checker, observe=True, mask=None, reps=1):
    """run one behaviour in a suspended carrier; returns the transcript (for purity comparisons)"""
    env = Env(r, beh, False, checker)
    fn.__globals__["GMK"] = env.mk
    obj = fn(env)
    transcript = []
    sends = 0
    try:
        if observe and checker.mode == "purity":
            # observe the target before it has started, directly and through a custom wrapper item
            with warnings.catch_warnings(record=True):
                warnings.simplefilter("always")
                job = Job(obj)
                a = stackscope.extract(obj)
                b = stackscope.extract(job)
                c = stackscope.extract(job)
            if b != c or [f.pyframe for f in a.frames] != [f.pyframe for f in b.frames]:
                checker.bad("extractions of the unstarted target differ")
        # agenv: the async generator is driven by a COROUTINE awaiting its asend() awaitable, and that coroutine is what
        # gets extracted (the generator's frame is then reached through another generator-like object)
        if carrier == "agenv":
            aw = _via(obj.asend(None))
        elif carrier in ("agen", "ageny"):
            aw = obj.asend(None)
        while True:
            try:
                if carrier in ("agen", "ageny", "agenv"):
                    v = aw.send(None)
                else:
                    v = obj.send(None)
            except StopIteration as ex:
                if carrier == "ageny":
                    # the async generator suspended at its own yield: the asend() awaitable is finished
                    v = ex.value
                    transcript.append(("yield", v))
                    ev = env.expect("susp", None)
                    if observe and (mask is None or (sends < len(mask) and mask[sends])):
                        stacks = [checker.check_suspended(env, ev, obj, carrier) for _ in range(reps)]
                        if reps > 1 and stacks[0] is not None and any(s_ != stacks[0] for s_ in stacks[1:]):
                            checker.bad("two extractions of an unchanged target differ")
                        del stacks
                    sends += 1
                    aw = obj.asend(None)
                    continue
                transcript.append(("return", "value" if ex.value is not None else None))
                outcome = "return"
                break
            except StopAsyncIteration:
                transcript.append(("return", None))
                outcome = "return"
                break
            except Boom:
                transcript.append(("raise",))
                outcome = "raise"
                break
            transcript.append(("yield", v))
            ev = env.expect("susp", None)
            if observe and (mask is None or (sends < len(mask) and mask[sends])):
                stacks = []
                for _ in range(reps):
                    stacks.append(checker.check_suspended(env, ev, aw if carrier == "agenv" else obj, carrier, owner=obj))
                if reps > 1 and stacks[0] is not None and any(s != stacks[0] for s in stacks[1:]):
                    checker.bad("two extractions of an unchanged target differ")
                if checker.mode == "purity":
                    with warnings.catch_warnings(record=True):
                        warnings.simplefilter("always")
                        viaw = stackscope.extract(Job(obj))
                    if stacks[0] is not None and [f.pyframe for f in viaw.frames] != [f.pyframe for f in stacks[0].frames]:
                        checker.bad("extraction through a wrapper item differs")
                    del viaw
                del stacks
                if checker.mode == "purity":
                    checker.check_released(obj)
            sends += 1
        env.finish()
        spec_out = beh["out"]
        if (spec_out == "raise") != (outcome == "raise"):
            raise GroundTruthMismatch("outcome: spec %s real %s" % (spec_out, outcome))
    finally:
        try:
            if carrier in ("agen", "ageny", "agenv"):
                pass
            else:
                obj.close()
        except BaseException:
            pass
    return transcript, env


def drive_running(fn, r, beh, carrier, checker):
    env = Env(r, beh, True, checker)
    fn.__globals__["GMK"] = env.mk
    try:
        if carrier == "func":
            fn(env)
        else:
            obj = fn(env)
            try:
                if carrier == "agen":
                    obj.asend(None).send(None)
                else:
                    obj.send(None)
            except (StopIteration, StopAsyncIteration):
                pass
        outcome = "return"
    except Boom:
        outcome = "raise"
    env.finish()
    if (beh["out"] == "raise") != (outcome == "raise"):
        raise GroundTruthMismatch("outcome: spec %s real %s" % (beh["out"], outcome))


def carriers_for(prog, mode):
    if mode == "running":
        return ["coro", "agen"] if prog["async"] else ["func", "gen", "coro", "agen"]
    return ["coro", "agen", "ageny", "agenv"] if prog["async"] else ["gen", "coro", "agen", "ageny", "agenv"]


def main():
    programs = json.load(open(sys.argv[1]))
    behaviours = json.load(open(sys.argv[2]))
    mode = sys.argv[4]
    shard = (int(sys.argv[6]), int(sys.argv[7])) if len(sys.argv) > 7 else (0, 1)
    if mode == "referents":
        lowlevel.set_trickery_enabled(False)
    results = {"mode": mode, "py": "%d.%d" % PY, "runs": 0, "observations": 0, "exit_observations": 0,
               "meta_checked": 0, "mismatches": [], "gt_errors": [], "skipped": 0}
    cache = {}
    if mode == "purity" and shard[0] == 0:
        value_stack_refcounts(results)
    for bi, beh in enumerate(behaviours):
        if bi % shard[1] != shard[0]:
            continue
        prog = programs[beh["pid"] - 1]
        if mode == "running" and beh["mse"]:
            continue
        carriers = carriers_for(prog, mode)
        if "ageny" in carriers:
            # the three async-generator carriers (suspended in an await / at its own yield / driven through a coroutine)
            # take turns between behaviours
            keep = ("agen", "ageny", "agenv")[((bi // shard[1]) + beh["pid"]) % 3]
            carriers = [c for c in carriers if c not in ("agen", "ageny", "agenv") or c == keep]
        for carrier in carriers:
            key = (beh["pid"], carrier, mode == "running")
            if key not in cache:
                cache[key] = compile_prog(prog, carrier, mode == "running")
            fn, r, err = cache[key]
            if err:
                results["skipped"] += 1
                continue
            checker = Checker(mode)
            checker.site = {"pid": beh["pid"], "carrier": carrier, "mse": beh["mse"], "path": beh["path"]}
            try:
                if mode == "running":
                    drive_running(fn, r, beh, carrier, checker)
                elif mode == "purity":
                    purity(fn, r, beh, carrier, checker)
                else:
                    drive_suspended(fn, r, beh, carrier, checker)
            except GroundTruthMismatch as ex:
                results["gt_errors"].append({"pid": beh["pid"], "carrier": carrier, "mse": beh["mse"], "path": beh["path"],
                                             "what": str(ex), "source": r.source})
                continue
            results["runs"] += 1
            results["observations"] += checker.observations
            results["exit_observations"] += checker.exit_observations
            results["meta_checked"] += checker.meta_checked
            for mm in checker.mismatches:
                mm["source"] = r.source if len(results["mismatches"]) < 40 else None
                results["mismatches"].append(mm)
    json.dump(results, open(sys.argv[3], "w"))


def interpreter_settings():
    """settings that belong to the application, not to a library that merely looks at a stack"""
    import threading
    return {"gc enabled": gc.isenabled(), "gc threshold": gc.get_threshold(), "switch interval": sys.getswitchinterval(),
            "trace function": sys.gettrace() is not None, "profile function": sys.getprofile() is not None,
            "recursion limit": sys.getrecursionlimit(), "threading trace": threading._trace_hook is not None,
            "threads": threading.active_count()}


def value_stack_refcounts(results):
    """C06: 'reference counts of objects reachable only from the value stack return to baseline' -- measured with
    the cycle collector OFF, for a manager the trickery analysis handles, one it fails on (a static __exit__: the
    analysis warns and falls back) and one implemented in C"""
    import threading

    class PMx:
        def __enter__(self):
            return self

        def __exit__(self, *a):
            return False

    class SMx:
        def __enter__(self):
            return self

        @staticmethod
        def __exit__(*a):
            return False

    class It:
        def __iter__(self):
            return self

        def __next__(self):
            return 1
    box = []

    def mk():
        it = It()
        box.append(it)
        return it

    mbox = []

    def target(make):
        def mkm():
            m = make()
            mbox.append(m)
            return m
        for x in mk():          # the iterator lives on the value stack only
            with mkm():         # ... and so does the manager (through the bound __exit__ the with statement keeps)
                yield x
    for label, make in (("a manager with bound methods", PMx), ("a manager whose __exit__ is static (trickery fails, fallback)", SMx),
                        ("a manager implemented in C", threading.Lock)):
        with warnings.catch_warnings():
            warnings.simplefilter("ignore")
            w = target(make)
            next(w)
            stackscope.extract(w)           # warm-up: first-use caches
            del box[:]
            gc.collect()
            was = gc.isenabled()
            gc.disable()
            try:
                del mbox[:]
                g = target(make)
                next(g)
                it = box.pop()
                mgr = mbox.pop()
                fr = g.gi_frame
                before = (sys.getrefcount(it), sys.getrefcount(mgr), sys.getrefcount(fr), sys.getrefcount(g))
                world0 = interpreter_settings()
                for _ in range(3):
                    st = stackscope.extract(g)
                    del st
                world1 = interpreter_settings()
                after = (sys.getrefcount(it), sys.getrefcount(mgr), sys.getrefcount(fr), sys.getrefcount(g))
                del fr, mgr
                if world1 != world0:
                    results["mismatches"].append({"what": "extraction changed interpreter-wide settings of the application: %s -> %s (%s)"
                                                          % (world0, world1, label),
                                                  "pid": 0, "carrier": "gen", "mse": False, "path": [], "w": None, "source": None})
            finally:
                if was:
                    gc.enable()
        if after != before:
            results["mismatches"].append({"what": "reference counts (value-stack-only iterator, value-stack-only manager, the target's frame, the "
                                                  "target) are %s after three extractions were dropped, %s before (cycle collector off; %s)"
                                                  % (after, before, label),
                                          "pid": 0, "carrier": "gen", "mse": False, "path": [], "w": None, "source": None})
        g.close()
        w.close()


def purity(fn, r, beh, carrier, checker):
    """C06: the observed run must be indistinguishable from the un-observed one; nothing is retained"""
    base, env0 = drive_suspended(fn, r, beh, carrier, checker, observe=False)
    nsusp = sum(1 for t in base if t[0] == "yield")
    import random
    rng = random.Random(beh["pid"] * 7919 + len(beh["path"]))
    masks = [[True] * nsusp, [rng.random() < 0.5 for _ in range(nsusp)]]
    for mask in masks:
        reps = rng.choice([1, 2, 3])
        try:
            tr, env = drive_suspended(fn, r, beh, carrier, checker, observe=True, mask=mask, reps=reps)
        except GroundTruthMismatch as ex:
            # the un-observed run followed the specification; only the extractions can have made this one diverge
            checker.bad("the observed run no longer follows the program's behaviour (extraction perturbed the target): %s" % ex, mask=mask, reps=reps)
            continue
        if tr != base or env.log != env0.log:
            checker.bad("observed run differs from the un-observed run", mask=mask, reps=reps)
        # nothing retained: managers die once the harness drops them
        refs = [weakref.ref(m) for m in env.keep]
        env.keep[:] = []
        env.by_id.clear()
        # drop the harness's own references (targets of `as` clauses, the global the padded programs create managers through)
        env.lst[:] = [None]
        env.d.clear()
        env.ns.__dict__.clear()
        fn.__globals__["GMK"] = None
        del env, tr
        gc.collect()
        alive = sum(1 for w in refs if w() is not None)
        if alive:
            checker.bad("%d managers still alive after the stacks were dropped" % alive, mask=mask)


if __name__ == "__main__":
    main()
