"""Replay driver for M5 (C07): the frame snapshot protocol and unwrap_thread against a target thread whose progress
the controller dictates (TLC's interleavings), blocked-thread exactness, and a free-running stress.
CPython 3.11+ only for the snapshot part (the guarded probes live in _lowlevel_cpython_311).
usage: thread_driver.py <mode> <in.json> <out.json>     mode: snapshot | f10 | unwrap | blocked | stress"""
import json
import os
import sys
import threading
import types
import time
import warnings

import stackscope
from stackscope import _verif, lowlevel

TIMEOUT = 10.0


class Stuck(Exception):
    pass


class CM:
    count = 0

    def __init__(self, it):
        self.it = it

    def __enter__(self):
        return self

    def __exit__(self, *a):
        return False


class Overlap:
    """a SECOND inspector on another thread, inside its own extraction (with other options) while the first one is in the
    middle of extracting a blocked thread: the first inspector's hook for CM starts it and waits until it is inside"""
    active = None

    def __init__(self):
        self.started = False
        self.b_inside, self.a_done = threading.Event(), threading.Event()
        self.thread = None
        self.b_result = None

    def run_b(self):
        g = _b_target()
        next(g)
        self.b_result = stackscope.extract(g, with_contexts=False, recurse_child_tasks=True)


def _b_target():
    with CM(-1):
        yield


def _b_hook(frame, next_inner):
    ov = Overlap.active
    if ov is not None:
        ov.b_inside.set()
        ov.a_done.wait(TIMEOUT)
    return None


def _cm_hook(mgr, context):
    ov = Overlap.active
    if ov is None or ov.started or threading.current_thread() is ov.thread:
        return
    ov.started = True
    ov.thread = threading.Thread(target=ov.run_b, daemon=True)
    ov.thread.start()
    ov.b_inside.wait(TIMEOUT)


stackscope.elaborate_frame.register(_b_target)(_b_hook)
stackscope.elaborate_context.register(CM)(_cm_hook)


class Target:
    """the racing target:  while flag: with CM(): gate(); gate()  /  gate()
    Every checkpoint is a C-level blocking call (lock.acquire) made DIRECTLY by the inspected frame, so that the frame
    is 'executing' in the interpreter's sense (stacktop == -1; a call to a Python function would be inlined and leave
    a saved stacktop) and the snapshot code has to trim the value stack by the handler depth of f_lasti."""

    def __init__(self):
        self.gate = threading.Lock()
        self.gate.acquire()
        self.flag = True
        self.frame = None
        self.it = 0
        self.in_body = False
        self.left_body = False
        self.offsets = self.acquire_offsets()
        self.next = 0
        self.thread = threading.Thread(target=self.runner, daemon=True)

    @staticmethod
    def acquire_offsets():
        import dis
        ins = list(dis.get_instructions(Target.body))
        offs = []
        for k, x in enumerate(ins):
            if x.opname in ("CALL", "CALL_METHOD", "CALL_FUNCTION") and k > 0:
                back = [y for y in ins[max(0, k - 4):k] if y.opname in ("LOAD_ATTR", "LOAD_METHOD")]
                if back and back[-1].argval == "acquire":
                    offs.append(x.offset)
        assert len(offs) == 3, offs
        return offs

    def body(self):
        self.frame = sys._getframe(0)
        while self.flag:
            self.it += 1
            with CM(self.it):
                self.gate.acquire()
                self.gate.acquire()
            self.gate.acquire()

    def runner(self):
        self.body()
        self.left_body = True
        self.gate.acquire()

    def at(self):
        """which checkpoint the target is blocked at: 1, 2, 3 (inside body), 9 (body returned), 0 (in between)"""
        if self.left_body:
            return 9
        fr = self.frame
        if fr is None:
            return 0
        li = fr.f_lasti
        for k, o in enumerate(self.offsets):
            # f_lasti rests on the CALL or on one of its inline cache entries while the C function runs
            if o <= li <= o + 8:
                return k + 1
        return 0

    def wait_pos(self, want=None):
        deadline = time.time() + TIMEOUT
        while time.time() < deadline:
            p = self.at()
            if p != 0 and (want is None or p == want):
                # the call has begun; give the C function the time to block (it holds no Python-level state)
                time.sleep(0.002)
                return p
            if not self.thread.is_alive():
                return "exited"
            time.sleep(0.0003)
        raise Stuck("target did not reach a checkpoint (at %s, want %s)" % (self.at(), want))

    def advance(self):
        """release the target from its checkpoint and wait until it is blocked at the next one (or has exited)"""
        cur = self.at()
        if cur == 9:
            self.gate.release()
            self.thread.join(TIMEOUT)
            return "exited"
        if cur == 3:
            nxt = 1 if self.flag else 9
        else:
            nxt = cur + 1
        it0 = self.it
        self.gate.release()
        deadline = time.time() + TIMEOUT
        while time.time() < deadline:
            p = self.at()
            if p == nxt and (nxt != 1 or self.it > it0):
                time.sleep(0.002)
                return p
            time.sleep(0.0003)
        raise Stuck("target did not reach checkpoint %s (at %s)" % (nxt, self.at()))


class Inspector:
    def __init__(self, frame):
        self.frame = frame
        self.cv = threading.Condition()
        self.at = None
        self.permits = 0
        self.result = None
        self.attempts = 0
        self.thread = threading.Thread(target=self.run, name="inspector", daemon=True)

    def sink(self, name, fields):
        if threading.current_thread() is not self.thread or not name.startswith("snap_"):
            return
        if name == "snap_lasti":
            self.attempts += 1
        with self.cv:
            self.at = (name, fields.get("i"), fields.get("stack_len"), fields.get("lasti"))
            self.cv.notify_all()
            while self.permits == 0:
                if not self.cv.wait(TIMEOUT * 6):
                    raise Stuck("inspector not released at %s" % name)
            self.permits -= 1
            self.at = None

    def run(self):
        with self.cv:
            self.at = ("start", None, None, None)
            self.cv.notify_all()
            while self.permits == 0:
                self.cv.wait(TIMEOUT * 6)
            self.permits -= 1
            self.at = None
        try:
            d = lowlevel.inspect_frame(self.frame)
            self.result = ("ok", d)
        except RuntimeError as ex:
            self.result = ("giveup", str(ex))
        except BaseException as ex:
            self.result = ("raised", repr(ex))
        with self.cv:
            self.at = ("done", None, None, None)
            self.cv.notify_all()

    def step(self):
        with self.cv:
            self.permits += 1
            self.cv.notify_all()
            ok = self.cv.wait_for(lambda: self.at is not None and self.permits == 0, TIMEOUT)
        if not ok:
            raise Stuck("inspector did not reach a probe point")
        return self.at

    def where(self):
        with self.cv:
            self.cv.wait_for(lambda: self.at is not None, TIMEOUT)
            return self.at


def replay_snapshot(beh, max_attempts=10):
    """returns a list of mismatch strings"""
    bad = []
    tgt = Target()
    tgt.thread.start()
    tgt.wait_pos(1)         # blocked at checkpoint 1, frame known
    insp = Inspector(tgt.frame)
    _verif.sink = insp.sink
    insp.thread.start()
    insp.where()
    try:
        for k, a in enumerate(beh["acts"]):
            if a == "T12" or a == "T23":
                tgt.advance()
            elif a == "T31":
                tgt.flag = True
                tgt.advance()
            elif a == "TFinish":
                tgt.flag = False
                p = tgt.advance()
                if p != 9:
                    bad.append("step %d TFinish: target at %s" % (k, p))
            elif a == "TExit":
                tgt.advance()
                if tgt.thread.is_alive():
                    bad.append("step %d TExit: thread did not exit" % k)
            else:
                at = insp.step()
                # hops that have no counterpart in the model (no access to the target's memory in between)
                if at[0] == "snap_header":
                    at = insp.step()
                if at[0] == "snap_retry" and insp.attempts >= max_attempts:
                    at = insp.step()
                want = {"IStart": ("snap_lasti",), "IDeref": ("snap_deref",),
                        "IHeader": ("snap_slot", "snap_final", "snap_retry", "done"),
                        "ICheck": ("snap_slot", "snap_final", "snap_retry", "done")}[a]
                if at[0] not in want:
                    bad.append("step %d %s: inspector at %s" % (k, a, at[0]))
                    break
        res = insp.result
        if insp.where()[0] != "done":
            bad.append("inspector not finished at the end of the behaviour (at %s)" % (insp.where()[0],))
        else:
            res = insp.result
            if beh["result"] == "ok":
                if res[0] != "ok":
                    bad.append("spec ok, real %s" % (res,))
                else:
                    st = res[1].stack
                    if len(st) != len(beh["snap"]):
                        bad.append("snapshot length %d, spec %d (position %s)" % (len(st), len(beh["snap"]), beh["lb"]))
                    for o in st:
                        if not (getattr(o, "__name__", "") == "__exit__" and isinstance(getattr(o, "__self__", None), CM)):
                            bad.append("snapshot slot holds %r, not the __exit__ of one of the target's managers" % (o,))
            elif beh["result"] == "giveup":
                if res[0] != "giveup":
                    bad.append("spec giveup, real %s" % (res,))
            if insp.attempts != beh["attempt"]:
                bad.append("attempts: spec %d real %d" % (beh["attempt"], insp.attempts))
    except Stuck as ex:
        bad.append("stuck: %s" % ex)
    finally:
        _verif.sink = None
        # let both threads finish
        tgt.flag = False
        for _ in range(8):
            with insp.cv:
                insp.permits += 1
                insp.cv.notify_all()
            time.sleep(0.001)
        insp.thread.join(2)
        for _ in range(8):
            if not tgt.thread.is_alive():
                break
            try:
                tgt.gate.release()
            except RuntimeError:
                pass
            time.sleep(0.003)
        tgt.thread.join(2)
    return bad


def mode_snapshot(data):
    out = {"n": 0, "mismatches": [], "skipped_crash": 0}
    for bi, beh in enumerate(data["behaviours"]):
        if beh["crashed"]:
            out["skipped_crash"] += 1
            continue
        bad = replay_snapshot(beh)
        out["n"] += 1
        if bad:
            out["mismatches"].append({"behaviour": bi, "acts": beh["acts"], "bad": bad})
    return out


def mode_f10(data):
    """replay ONE crashing behaviour: the process is expected to die with a signal (finding F10)"""
    beh = data["behaviours"][0]
    replay_snapshot(beh)
    return {"survived": True}


# ------------------------------------------------------------------ unwrap_thread
def mode_unwrap(data):
    out = {"n": 0, "mismatches": [], "skipped": 0}
    for bi, beh in enumerate(data["behaviours"]):
        r = replay_unwrap(beh)
        if r == "skip":
            out["skipped"] += 1
            continue
        out["n"] += 1
        if r:
            out["mismatches"].append({"behaviour": bi, "acts": beh["acts"], "bad": r})
    return out


def replay_unwrap(beh):
    go = threading.Event()
    started = threading.Event()

    def tbody():
        started.set()
        go.wait(TIMEOUT)
    T = threading.Thread(target=tbody, daemon=True)
    ugo = threading.Event()
    U = {"thread": None}
    cv = threading.Condition()
    state = {"at": None, "permits": 0}
    res = {}

    def sink(name, fields):
        if threading.current_thread().name != "inspector" or name not in ("thread_was_alive", "thread_got_frame"):
            return
        with cv:
            state["at"] = name
            cv.notify_all()
            while state["permits"] == 0:
                cv.wait(TIMEOUT)
            state["permits"] -= 1
            state["at"] = None

    def irun():
        with cv:
            state["at"] = "start"
            cv.notify_all()
            while state["permits"] == 0:
                cv.wait(TIMEOUT)
            state["permits"] -= 1
            state["at"] = None
        with warnings.catch_warnings():
            warnings.simplefilter("ignore")
            st = stackscope.extract(T, with_contexts=False)
        res["stack"] = st
        with cv:
            state["at"] = "done"
            cv.notify_all()

    def istep():
        with cv:
            state["permits"] += 1
            cv.notify_all()
            cv.wait_for(lambda: state["at"] is not None and state["permits"] == 0, TIMEOUT)
            return state["at"]
    if beh["t0"] == "alive":
        T.start()
        started.wait(TIMEOUT)
    I = threading.Thread(target=irun, name="inspector", daemon=True)
    _verif.sink = sink
    I.start()
    with cv:
        cv.wait_for(lambda: state["at"] == "start", TIMEOUT)
    bad = []
    try:
        for a in beh["acts"]:
            if a == "TStart":
                T.start()
                started.wait(TIMEOUT)
            elif a == "TFinish":
                go.set()
                T.join(TIMEOUT)
            elif a == "UStart":
                # a later thread that REUSES T's ident
                ident = T.ident
                found = None
                pool = []
                for _ in range(60):
                    ev = threading.Event()
                    u = threading.Thread(target=lambda: (ugo.wait(TIMEOUT)), daemon=True)
                    u.start()
                    pool.append(u)
                    if u.ident == ident:
                        found = u
                        break
                if found is None:
                    ugo.set()
                    return "skip"
                U["thread"] = found
                U["pool"] = pool
            elif a == "UFinish":
                ugo.set()
                for u in U.get("pool", []):
                    u.join(TIMEOUT)
            elif a in ("IWasAlive", "IGetFrames", "IAliveAfter"):
                istep()
        with cv:
            cv.wait_for(lambda: state["at"] == "done", TIMEOUT)
        st = res.get("stack")
        if st is None:
            return ["inspector did not finish"]
        names = [f.funcname for f in st.frames]
        if beh["result"] == "empty":
            if st.frames:
                bad.append("spec: no frames; real frames %s" % names)
        elif beh["result"] == "T":
            if "tbody" not in names:
                bad.append("spec: T's frames; real %s" % names)
        if any(n == "<lambda>" for n in names):
            bad.append("frames of ANOTHER thread (the one that reused the ident) were reported: %s" % names)
        if st.error is not None:
            bad.append("error %r" % (st.error,))
    finally:
        _verif.sink = None
        go.set()
        ugo.set()
        with cv:
            state["permits"] += 5
            cv.notify_all()
        I.join(2)
    return bad


# ------------------------------------------------------------------ blocked threads
def mode_blocked(data):
    out = {"n": 0, "mismatches": []}
    for depth in range(1, 6):
        for nm in range(0, 4):
            for mode in ("alive", "unstarted", "finished"):
                ev, ready = threading.Event(), threading.Event()
                mgrs = []

                def level(k):
                    if k <= nm:
                        # managers written in Python and managers implemented in C (whose bound __exit__ on the value
                        # stack is a builtin method, not a types.MethodType), in rotation
                        m = [CM(k), threading.Lock(), threading.RLock(), open(os.devnull)][(k + depth) % 4]
                        mgrs.append(m)
                        with m:
                            return level2(k)
                    return level2(k)

                def level2(k):
                    if k < depth:
                        return level(k + 1)
                    ready.set()
                    ev.wait(TIMEOUT)
                t = threading.Thread(target=level, args=(1,), daemon=True)
                if mode != "unstarted":
                    t.start()
                    ready.wait(TIMEOUT)
                    time.sleep(0.01)
                if mode == "finished":
                    ev.set()
                    t.join(TIMEOUT)
                # every other time a second inspector is inside an extraction of its own while this one goes on
                ov = Overlap.active = Overlap() if (mode == "alive" and nm >= 1 and (depth + nm) % 2 == 0) else None
                with warnings.catch_warnings(record=True) as wl:
                    warnings.simplefilter("always")
                    st = stackscope.extract(t)
                out["n"] += 1
                bad = []
                if ov is not None:
                    ov.a_done.set()
                    if ov.thread is not None:
                        ov.thread.join(TIMEOUT)
                        if ov.b_result is None or any(f.contexts for f in ov.b_result.frames):
                            bad.append("the second inspector (with_contexts=False) got contexts / no result")
                    Overlap.active = None
                if mode != "alive":
                    if st.frames or st.error is not None:
                        bad.append("%s thread: frames %s error %r" % (mode, [f.funcname for f in st.frames], st.error))
                else:
                    vis = [f for f in st.frames if f.funcname in ("level", "level2")]
                    want = []
                    for k in range(1, depth + 1):
                        want += ["level", "level2"]
                    if [f.funcname for f in vis] != want:
                        bad.append("depth %d: frames %s" % (depth, [f.funcname for f in st.frames]))
                    else:
                        lv = [f for f in vis if f.funcname == "level"]
                        for k, f in enumerate(lv, start=1):
                            objs = [c.obj for c in f.contexts]
                            wantm = [mgrs[k - 1]] if k <= nm else []
                            if len(objs) != len(wantm) or any(a is not b for a, b in zip(objs, wantm)):
                                bad.append("depth %d managers %d: frame level(%d) contexts %r" % (depth, nm, k, objs))
                    names = [f.funcname for f in st.frames]
                    if names[-1:] != ["wait"] and "wait" not in names:
                        bad.append("blocking point (Event.wait) missing: %s" % names)
                    if st.error is not None or [w for w in wl if issubclass(w.category, RuntimeWarning)]:
                        bad.append("error %r / warnings" % (st.error,))
                    hidden = [f.funcname for f in st.frames if f.hide]
                    if not all(h in ("_bootstrap", "_bootstrap_inner", "run") for h in hidden):
                        bad.append("unexpected hidden frames %s" % hidden)
                ev.set()
                if bad:
                    out["mismatches"].append({"depth": depth, "managers": nm, "mode": mode, "bad": bad})
    # a thread blocked INSIDE a manager's __exit__, with other managers of the same frame still active around it
    for nouter, raising in ((0, False), (1, False), (2, False), (0, True), (1, True), (2, True)):
        # raising: the with body ends by an exception, so __exit__ is called on the unwinding path
        ev, ready = threading.Event(), threading.Event()

        class BlockingExit:
            def __bool__(self):
                return False

            def __enter__(self):
                return self

            def __exit__(self, *a):
                ready.set()
                ev.wait(TIMEOUT)
                return False
        outers = [CM(k) for k in range(nouter)]
        inner = BlockingExit()

        def body():
            if raising:
                raise KeyError("the body fails")

        def holder():
            try:
                if nouter == 0:
                    with inner:
                        body()
                elif nouter == 1:
                    with outers[0]:
                        with inner:
                            body()
                else:
                    with outers[0], outers[1]:
                        with inner:
                            body()
            except KeyError:
                pass
        t = threading.Thread(target=holder, daemon=True)
        t.start()
        ready.wait(TIMEOUT)
        time.sleep(0.01)
        with warnings.catch_warnings(record=True) as wl:
            warnings.simplefilter("always")
            st = stackscope.extract(t)
        out["n"] += 1
        bad = []
        hf = [f for f in st.frames if f.funcname == "holder"]
        if len(hf) != 1:
            bad.append("frames %s" % [f.funcname for f in st.frames])
        else:
            got = [(c.obj, bool(c.is_exiting)) for c in hf[0].contexts]
            want = [(m, False) for m in outers] + [(inner, True)]
            if len(got) != len(want) or any(g[0] is not w[0] or g[1] != w[1] for g, w in zip(got, want)):
                bad.append("thread blocked in __exit__ (%s path) with %d outer managers: contexts %s, expected the outer managers and "
                           "then the exiting one with its manager as obj" % ("exception" if raising else "normal", nouter,
                                                                              [(type(o).__name__, e) for o, e in got]))
            names = [f.funcname for f in st.frames]
            if "__exit__" not in names:
                bad.append("the __exit__ frame is missing: %s" % names)
        if st.error is not None or [w for w in wl if issubclass(w.category, RuntimeWarning)]:
            bad.append("error %r / warnings" % (st.error,))
        ev.set()
        t.join(TIMEOUT)
        if bad:
            out["mismatches"].append({"depth": 1, "managers": nouter + 1, "mode": "blocked in __exit__", "bad": bad})
    # a blocked thread one of whose frames defeats the context analysis (a manager whose __exit__ is static), while the
    # application turns warnings into errors: extract(thread) still does not raise and still returns the thread's frames
    ev, ready = threading.Event(), threading.Event()

    class StaticExit:
        def __enter__(self):
            return self

        @staticmethod
        def __exit__(*a):
            return False

    def awkward():
        with StaticExit():
            ready.set()
            ev.wait(TIMEOUT)
    t = threading.Thread(target=awkward, daemon=True)
    t.start()
    ready.wait(TIMEOUT)
    time.sleep(0.01)
    out["n"] += 1
    bad = []
    with warnings.catch_warnings():
        warnings.simplefilter("error")
        try:
            st = stackscope.extract(t)
            names = [f.funcname for f in st.frames]
            if "awkward" not in names or "wait" not in names:
                bad.append("warnings as errors, a frame whose context analysis fails: frames %s" % names)
        except BaseException as ex:
            bad.append("warnings as errors, a frame whose context analysis fails: extract(thread) raised %r" % (ex,))
    ev.set()
    t.join(TIMEOUT)
    if bad:
        out["mismatches"].append({"depth": 1, "managers": 1, "mode": "context analysis fails", "bad": bad})
    # the inspected thread IMPORTS a module while the extraction is scanning sys.modules for glue (a lazy import in the
    # target: the interleaving is forced through a module's own glue function, which runs in the middle of that scan)
    go, done, park = threading.Event(), threading.Event(), threading.Event()

    def importer():
        go.wait(TIMEOUT)
        sys.modules["verif_zz_late"] = types.ModuleType("verif_zz_late")
        done.set()
        park.wait(TIMEOUT)
    t = threading.Thread(target=importer, daemon=True)
    t.start()
    time.sleep(0.01)
    mod = types.ModuleType("verif_zz_glue")

    def glue():
        go.set()
        done.wait(TIMEOUT)
    mod._stackscope_install_glue_ = glue
    sys.modules["verif_zz_glue"] = mod
    bad = []
    try:
        with warnings.catch_warnings(record=True):
            warnings.simplefilter("always")
            st = stackscope.extract(t)
        out["n"] += 1
        if "importer" not in [f.funcname for f in st.frames] or st.error is not None:
            bad.append("the thread imports a module during the glue scan: frames %s error %r" % ([f.funcname for f in st.frames], st.error))
        if not done.is_set():
            bad.append("harness: the glue function did not run during this extraction")
    except BaseException as ex:
        bad.append("the thread imports a module during the glue scan: extract(thread) raised %r" % (ex,))
    finally:
        park.set()
        t.join(TIMEOUT)
        sys.modules.pop("verif_zz_glue", None)
        sys.modules.pop("verif_zz_late", None)
    if bad:
        out["mismatches"].append({"depth": 1, "managers": 0, "mode": "importing target", "bad": bad})
    return out


# ------------------------------------------------------------------ stress
def mode_stress(data):
    seconds = data.get("seconds", 5)
    old = sys.getswitchinterval()
    sys.setswitchinterval(1e-6)
    stop = threading.Event()
    own = set()

    def spin():
        n = 0
        while not stop.is_set():
            with CM(n):
                n += helper(n)
            n += helper(n)
            # frames owned by a generator / a coroutine on the racing thread's stack, entered, suspended and resumed
            for v in gen_part(n):
                n += v
            c = coro_part(n)
            try:
                while True:
                    c.send(None)
            except StopIteration as e:
                n += e.value

    def helper(n):
        with CM(n):
            return 1

    def gen_part(n):
        with CM(n):
            yield helper(n)
            yield helper(n)

    async def coro_part(n):
        with CM(n):
            await _trace_trap()
            return helper(n)
    own.update([spin.__code__, helper.__code__, CM.__init__.__code__, CM.__enter__.__code__, CM.__exit__.__code__,
                gen_part.__code__, coro_part.__code__, _trace_trap.__code__])
    t = threading.Thread(target=spin, daemon=True)
    t.start()
    out = {"extractions": 0, "bad": [], "with_error": 0, "nonempty": 0}
    ok_codes = None
    deadline = time.time() + seconds
    try:
        while time.time() < deadline:
            try:
                with warnings.catch_warnings():
                    warnings.simplefilter("ignore")
                    st = stackscope.extract(t)
            except BaseException as ex:
                out["bad"].append("extract raised %r" % (ex,))
                break
            out["extractions"] += 1
            if st.error is not None:
                out["with_error"] += 1
            if st.frames:
                out["nonempty"] += 1
            for f in st.frames:
                # membership by code, not by name: the target runs spin / helper / CM methods and, while it starts or
                # polls the Event, functions of threading.py (the extracting thread runs none of those during extract)
                co = f.pyframe.f_code
                if co not in own and co.co_filename != threading.__file__:
                    out["bad"].append("frame %s (%s) does not belong to the target thread" % (f.funcname, co.co_filename))
                    break
        # churn: threads that start and finish while they are being extracted
        def short():
            n = 0
            for _ in range(200):
                with CM(n):
                    n += helper(n)
        own.add(short.__code__)
        out["churn_threads"] = 0
        deadline = time.time() + seconds / 3.0
        while time.time() < deadline and not out["bad"]:
            c = threading.Thread(target=short, daemon=True)
            c.start()
            out["churn_threads"] += 1
            while True:
                alive = c.is_alive()
                try:
                    with warnings.catch_warnings():
                        warnings.simplefilter("ignore")
                        st = stackscope.extract(c)
                except BaseException as ex:
                    out["bad"].append("churn: extract raised %r" % (ex,))
                    break
                out["extractions"] += 1
                for f in st.frames:
                    co = f.pyframe.f_code
                    if co not in own and co.co_filename != threading.__file__:
                        out["bad"].append("churn: frame %s (%s) does not belong to the target thread" % (f.funcname, co.co_filename))
                        break
                if not alive:
                    if st.frames:
                        out["bad"].append("churn: a finished thread has frames %s" % [f.funcname for f in st.frames])
                    break
            c.join(5)
    finally:
        stop.set()
        t.join(5)
        sys.setswitchinterval(old)
    return out


# ------------------------------------------------------------------ free-running traces (pattern T)
def mode_trace(data):
    """free-running traces for three kinds of racing frame: a plain function's (owned by the thread), a generator's and a
    coroutine's (owned by their objects; they are suspended -- stack top saved -- and resumed over and over while being
    inspected)"""
    total = {"traces": [], "calls": 0, "with_retry": 0, "giveup": 0, "raised": 0, "unknown_top": 0, "bad": [], "by_shape": {}}
    shapes = ("func", "gen", "coro")
    for shape in shapes:
        part = dict(data, seconds=data.get("seconds", 3) / len(shapes), max_traces=data.get("max_traces", 3000) // len(shapes))
        o = trace_shape(part, shape)
        for k in ("calls", "with_retry", "giveup", "raised", "unknown_top"):
            total[k] += o[k]
        total["traces"] += o["traces"]
        total["bad"] += o["bad"]
        total["by_shape"][shape] = {"calls": o["calls"], "with_retry": o["with_retry"], "traces": len(o["traces"])}
    return total


@types.coroutine
def _trace_trap():
    yield 1


def trace_shape(data, shape):
    """records free-running inspect_frame calls on the frame of a thread that never stops, one trace per call, for
    validation against FrameSnapshotTrace.tla.  The sink reads the target's f_lasti at every probe."""
    import dis
    seconds = data.get("seconds", 3)
    max_traces = data.get("max_traces", 3000)
    old = sys.getswitchinterval()
    sys.setswitchinterval(1e-6)
    stop = threading.Event()
    box = {}
    lock = threading.Lock()

    def spin():
        box["frame"] = sys._getframe(0)
        n = 0
        while not stop.is_set():
            with CM(n):
                n += helper(n)
                lock.acquire()          # C-level calls made by this very frame: it is then 'executing', stacktop unknown
                lock.release()
            n += helper(n)
            lock.acquire()
            lock.release()

    def helper(n):
        with CM(n):
            return 1

    def spin_gen():
        n = 0
        while not stop.is_set():
            with CM(n):
                n += helper(n)
                lock.acquire()
                lock.release()
                yield n                 # suspended inside the with block (stack top saved), resumed by the loop below
            n += helper(n)
            lock.acquire()
            lock.release()

    async def spin_coro():
        n = 0
        while not stop.is_set():
            with CM(n):
                n += helper(n)
                lock.acquire()
                lock.release()
                await _trace_trap()
            n += helper(n)
            lock.acquire()
            lock.release()

    def drive(obj):
        try:
            while True:
                obj.send(None)
        except StopIteration:
            pass
    if shape == "func":
        t = threading.Thread(target=spin, daemon=True)
    elif shape == "gen":
        g = spin_gen()
        box["frame"] = g.gi_frame
        t = threading.Thread(target=drive, args=(g,), daemon=True)
    else:
        g = spin_coro()
        box["frame"] = g.cr_frame
        t = threading.Thread(target=drive, args=(g,), daemon=True)
    t.start()
    while "frame" not in box:
        time.sleep(0.001)
    frame = box["frame"]
    code = frame.f_code
    table = [(e.start, e.end, e.depth) for e in dis._parse_exception_table(code)]

    def hd_at(lasti):
        for start, end, depth in table:
            if start <= lasti < end:
                return depth
        return 0
    full_table = list(dis._parse_exception_table(code))

    def blocks_at(lasti):
        """the handler chain of a position, innermost last, from CPython's own exception table: what the blocks of a
        snapshot taken at that position must be"""
        chain, cur = [], lasti
        for _ in range(64):
            e = next((x for x in full_table if x.start <= cur < x.end), None)
            if e is None:
                break
            chain.append((e.target, e.depth))
            cur = e.target
        return chain[::-1]
    events = []

    def sink(name, f):
        if f.get("frame") is not frame:
            return
        if name == "snap_lasti":
            ev = {"e": "lasti", "lasti": f["lasti"], "depth": f["depth"]}
        elif name == "snap_deref":
            ev = {"e": "deref"}
        elif name == "snap_header":
            ev = {"e": "header", "n": f["stack_len"], "unknown_top": f["stacktop"] == -1, "owned": f["owner"] == 2}
        elif name == "snap_slot":
            ev = {"e": "slot", "i": f["i"]}
        elif name == "snap_final":
            ev = {"e": "final"}
        elif name == "snap_retry":
            ev = {"e": "retry"}
        else:
            return
        events.append(ev)
        # LAST statement, with no call after it: the interpreter hands the GIL over only at calls and backward jumps, so
        # the re-check that follows the probe in inspect_frame reads this very value
        ev["seen"] = frame.f_lasti
    out = {"traces": [], "calls": 0, "with_retry": 0, "giveup": 0, "raised": 0, "unknown_top": 0, "bad": []}
    if not _verif.ENABLED:
        out["bad"].append("harness: probes are not enabled")
        return out
    plain = []
    deadline = time.time() + seconds
    _verif.sink = sink
    try:
        while time.time() < deadline:
            del events[:]
            try:
                d = lowlevel.inspect_frame(frame)
                lb = next((e["lasti"] for e in reversed(events) if e["e"] == "lasti"), None)
                end = {"e": "end", "result": "ok", "nstack": len(d.stack),
                       "blocks_ok": [(b.handler, b.level) for b in d.blocks] == blocks_at(lb)}
            except RuntimeError:
                end = {"e": "end", "result": "giveup", "nstack": 0}
                out["giveup"] += 1
            except AssertionError:
                end = {"e": "end", "result": "raised", "nstack": 0}
                out["raised"] += 1
            out["calls"] += 1
            evs = list(events) + [end]
            for e in evs:
                for k, dflt in (("seen", 0), ("lasti", 0), ("depth", 0), ("n", 0), ("unknown_top", False), ("owned", False),
                                ("i", 0), ("result", "-"), ("nstack", 0), ("blocks_ok", True)):
                    e.setdefault(k, dflt)
            pos = sorted({e["lasti"] for e in evs if e["e"] == "lasti"})
            tr = {"events": evs, "hd": [[p, hd_at(p)] for p in pos]}
            if any(e["e"] == "header" and e["unknown_top"] for e in evs):
                out["unknown_top"] += 1
            if not end["blocks_ok"]:
                out["traces"].insert(0, tr)          # never left to the sampling below
            elif any(e["e"] == "retry" for e in evs):
                out["with_retry"] += 1
                out["traces"].append(tr)
            else:
                plain.append(tr)
    finally:
        _verif.sink = None
        stop.set()
        t.join(5)
        sys.setswitchinterval(old)
    # all traces with retries (the interesting ones) first, then a sample of the straight ones
    out["traces"] = out["traces"][:max_traces]
    room = max_traces - len(out["traces"])
    if room > 0 and plain:
        step = max(1, len(plain) // room)
        out["traces"] += plain[::step][:room]
    return out


def main():
    mode = sys.argv[1]
    data = json.load(open(sys.argv[2]))
    fn = {"snapshot": mode_snapshot, "f10": mode_f10, "unwrap": mode_unwrap, "blocked": mode_blocked, "stress": mode_stress,
          "trace": mode_trace}[mode]
    out = fn(data)
    json.dump(out, open(sys.argv[3], "w"))


if __name__ == "__main__":
    main()
