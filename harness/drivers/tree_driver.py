"""Replay driver for C09 (CtxTree): builds real manager trees (plain managers, @contextmanager /
@asynccontextmanager generators with nested withs in their bodies, ExitStack / AsyncExitStack populated by
registration methods), suspends a carrier coroutine inside them, extracts, and compares the Context tree with
the specification's Unfold.  stdlib-only.   usage: tree_driver.py <cases.json> <out.json>"""
import contextlib
import io
import json
import sys
import types
import warnings

import stackscope


@types.coroutine
def trap():
    yield "S"


try:
    import async_generator
except ImportError:
    async_generator = None


class NoBackport(Exception):
    pass


class PM:
    def __bool__(self):
        return False            # managers are falsy objects throughout the corpus

    def __init__(self, i):
        self.i = i

    def __enter__(self):
        return self

    def __exit__(self, *a):
        return False

    def method(self, *exc):
        return False


class CPM(io.StringIO):
    """a plain manager whose __enter__ / __exit__ are implemented in C (io's): registered on an exit stack it is still
    enter_context(manager) / push(manager), not push(some method)"""

    def __init__(self, i):
        io.StringIO.__init__(self)
        self.i = i


class APM:
    def __bool__(self):
        return False

    def __init__(self, i, suspend_in_exit=False):
        self.i = i
        self.suspend_in_exit = suspend_in_exit

    async def __aenter__(self):
        return self

    async def __aexit__(self, *a):
        if self.suspend_in_exit:
            await trap()
        return False

    async def amethod(self, *exc):
        return False


class APM3(APM):
    """an async manager whose __aenter__ / __aexit__ are PLAIN functions returning awaitables (a delegating manager): whether
    a registration on an AsyncExitStack is async is a fact of the registration, not of the kind of function"""

    def __aenter__(self):
        return APM.__aenter__(self)

    def __aexit__(self, *a):
        return APM.__aexit__(self, *a)


def _parked_gen():
    yield "parked"


_PARKED = _parked_gen()
next(_PARKED)


def _reentrant_elaborate(mgr, context):
    """the plain managers' elaborate_context hook re-enters the public API in the middle of the enclosing extraction
    (with other options): everything elaborated afterwards must still be governed by the enclosing call's options"""
    stackscope.extract_outermost(_PARKED, with_contexts=False, recurse_child_tasks=True)
    stackscope.extract(_PARKED, with_contexts=False)


stackscope.elaborate_context.register(PM)(_reentrant_elaborate)
stackscope.elaborate_context.register(APM)(_reentrant_elaborate)


def drive(coro):
    try:
        coro.send(None)
    except StopIteration as ex:
        return ex.value
    raise RuntimeError("unexpected suspension while registering")


class Env:
    def __init__(self):
        self.objs = {}       # node id -> manager object
        self.fns = {}        # (stack id, op index) -> registered function / method self
        self.keep = []
        self.holders = {}
        self.exit_root = False

    def trap(self):
        return trap()

    def build(self, n, root_exiting=False):
        k = n["k"]
        if k == "plain":
            o = (APM3 if n["id"] % 3 == 2 else APM)(n["id"], suspend_in_exit=root_exiting or n.get("suspend", False)) if n["async"] else (CPM if n["id"] % 3 == 1 else PM)(n["id"])
        elif k == "gcm":
            o = self.build_gcm(n, root_exiting)
        else:
            o = contextlib.AsyncExitStack() if n["async"] else contextlib.ExitStack()
            self.objs[n["id"]] = o
            for idx, op in enumerate(n["ops"]):
                self.apply(o, n, idx, op)
        self.objs[n["id"]] = o
        return o

    def apply(self, es, n, idx, op):
        name = op["op"]
        key = (n["id"], idx)
        if name in ("enter_context", "push_mgr", "enter_async_context", "push_async_exit_mgr"):
            m = self.build(op["node"])
            if name == "enter_context":
                es.enter_context(m)
            elif name == "push_mgr":
                es.push(m)
            elif name == "enter_async_context":
                drive(es.enter_async_context(m))
            else:
                es.push_async_exit(m)
        elif name in ("push_fn", "push_async_exit_fn"):
            if name == "push_fn":
                def exit_fn(*exc):
                    return False
            else:
                async def exit_fn(*exc):
                    return False
            self.fns[key] = exit_fn
            (es.push if name == "push_fn" else es.push_async_exit)(exit_fn)
        elif name in ("push_method", "push_async_exit_method"):
            # one owner object may have several of its methods registered (or the same one twice): every registration
            # is a callback of its own.  Every other registration of a method re-uses the owner of the previous one.
            prev = self.holders.get(name)
            holder = prev if (prev is not None and idx % 2 == 1) else (PM(-1) if name == "push_method" else APM(-1))
            self.holders[name] = holder
            self.fns[key] = holder
            if name == "push_method":
                es.push(holder.method)
            else:
                es.push_async_exit(holder.amethod)
        elif name == "callback":
            def cb(*a, **k):
                return None
            self.fns[key] = cb
            es.callback(cb, 1, x=2)
        elif name == "push_async_callback":
            async def acb(*a, **k):
                return None
            self.fns[key] = acb
            es.push_async_callback(acb, 1)
        elif name == "pop_all":
            self.keep.append(es.pop_all())
        elif name == "close":
            try:
                if hasattr(es, "aclose"):
                    drive(es.aclose())
                else:
                    es.close()
            except RuntimeError as ex:
                # contextlib's complaint about a generator-based manager that was pushed without being entered
                if "generator didn't" not in str(ex):
                    raise
        else:
            raise ValueError(name)

    def build_gcm(self, n, root_exiting):
        i = n["id"]
        a = n["async"]
        lines = []
        deco = "@contextlib.asynccontextmanager" if a else "@contextlib.contextmanager"
        bp = bool(n.get("bp"))
        if bp:
            # the async_generator backport: asynccontextmanager over an @async_generator function, `await yield_(v)`
            if async_generator is None:
                raise NoBackport()
            deco = "@async_generator.asynccontextmanager\n@async_generator.async_generator"
        d = "async def" if a else "def"
        body_fn = "helper_%d" % i if n["yf"] else "outer_%d" % i
        if n["yf"]:
            lines += ["def helper_%d(env):" % i]
        else:
            lines += [deco, "%s outer_%d(env):" % (d, i)]
        ind = 1
        for j, c in enumerate(n["body"]):
            kw = "async with" if c["async"] else "with"
            lines.append("    " * ind + "%s env.build(env.nodes[%d]) as v%d:" % (kw, c["id"], j))
            ind += 1
        if root_exiting:
            lines.append("    " * ind + "try:")
            lines.append("    " * (ind + 1) + ("await async_generator.yield_(%d)" if bp else "yield %d") % i)
            lines.append("    " * ind + "finally:")
            lines.append("    " * (ind + 1) + "await env.trap()")
        else:
            lines.append("    " * ind + ("await async_generator.yield_(%d)" if bp else "yield %d") % i)
        if n["yf"]:
            lines += [deco, "def outer_%d(env):" % i, "    yield from helper_%d(env)" % i]
        ns = {"contextlib": contextlib, "async_generator": async_generator}
        exec(compile("\n".join(lines) + "\n", "<verif-gcm-%d>" % i, "exec"), ns)
        return ns["outer_%d" % i](self)


def index_nodes(n, acc):
    acc[n["id"]] = n
    for c in n.get("body", []):
        index_nodes(c, acc)
    for op in n.get("ops", []):
        if op["op"] in ("enter_context", "push_mgr", "enter_async_context", "push_async_exit_mgr"):
            index_nodes(op["node"], acc)
    return acc


class Bomb:
    """a healthy manager whose ELABORATION fails (registered elaborate_context hook below raises)"""

    def __enter__(self):
        return self

    def __exit__(self, *a):
        return False


class BombError(Exception):
    pass


@stackscope.elaborate_context.register(Bomb)
def _elaborate_bomb(mgr, context):
    raise BombError("elaboration of a sibling context fails")


async def carrier_sib(env, root, is_async):
    """the same carrier, but the frame holds a context whose elaboration FAILS in front of the root's:
    C09 must hold for the root context all the same (each context of a frame is elaborated on its own)"""
    with Bomb():
        if is_async:
            async with root as v:  # noqa: F841
                await env.trap()
        else:
            with root as v:  # noqa: F841
                await env.trap()


async def outer_carrier(env, root, is_async):
    """the frame outward of the carrier holds a plain manager, whose (re-entrant, see _reentrant_elaborate) hook has
    run by the time the carrier's own contexts are elaborated"""
    with PM(0):
        await carrier(env, root, is_async)


def carrier_frame(st):
    fs = [f for f in st.frames if f.funcname == "carrier"]
    return fs[0] if fs else st.frames[0]


async def carrier(env, root, is_async):
    if is_async:
        async with root as v:  # noqa: F841
            await env.trap()
    else:
        with root as v:  # noqa: F841
            await env.trap()


def compare(env, ctx, exp, where, bad, stack_node=None, varname="v"):
    if exp["k"] in ("plain", "gcm", "stack"):
        want = env.objs.get(exp["id"])
        if ctx.obj is not want:
            bad.append("%s: obj is %r, expected node %d" % (where, ctx.obj, exp["id"]))
    if bool(ctx.is_async) != exp["async"]:
        bad.append("%s: is_async %s expected %s" % (where, ctx.is_async, exp["async"]))
    if bool(ctx.is_exiting) != exp["exiting"]:
        bad.append("%s: is_exiting %s expected %s" % (where, ctx.is_exiting, exp["exiting"]))
    if exp["hasinner"]:
        if ctx.inner_stack is None:
            bad.append("%s: inner_stack missing" % where)
        else:
            names = [f.funcname for f in ctx.inner_stack.frames]
            want = [f["fn"][4:] if f["fn"].startswith("lib:") else "%s_%d" % (f["fn"], exp["id"]) for f in exp["frames"]]
            shown_lib = [fr.funcname for fr, f in zip(ctx.inner_stack.frames, exp["frames"]) if f["fn"].startswith("lib:") and not fr.hide]
            if names == want and shown_lib:
                bad.append("%s: library frames %s of the inner stack are not hidden" % (where, shown_lib))
            if names != want:
                bad.append("%s: inner_stack frames %s expected %s" % (where, names, want))
            else:
                for fr, fexp in zip(ctx.inner_stack.frames, exp["frames"]):
                    if len(fr.contexts) != len(fexp["ctxs"]):
                        bad.append("%s/%s: %d contexts expected %d" % (where, fr.funcname, len(fr.contexts), len(fexp["ctxs"])))
                        continue
                    for j, (c, cexp) in enumerate(zip(fr.contexts, fexp["ctxs"])):
                        compare(env, c, cexp, "%s/%s[%d]" % (where, fr.funcname, j), bad)
            if ctx.inner_stack.error is not None:
                bad.append("%s: inner_stack.error %r" % (where, ctx.inner_stack.error))
    elif ctx.inner_stack is not None:
        bad.append("%s: unexpected inner_stack" % where)
    kids = list(ctx.children)
    if len(kids) != len(exp["children"]):
        bad.append("%s: %d children expected %d" % (where, len(kids), len(exp["children"])))
        return
    for j, (c, cexp) in enumerate(zip(kids, exp["children"])):
        w = "%s.children[%d]" % (where, j)
        if not isinstance(c, stackscope.Context):
            bad.append("%s: not a Context" % w)
            continue
        desc = c.description or ""
        if (".%s(" % cexp["method"]) not in desc:
            bad.append("%s: description %r does not name the registration method %s" % (w, desc, cexp["method"]))
        if cexp["async"] and cexp["method"] in ("enter_async_context",) and not desc.startswith("await "):
            bad.append("%s: description %r lacks 'await '" % (w, desc))
        if cexp["k"] in ("plain", "gcm", "stack"):
            compare(env, c, cexp, w, bad)
        else:
            if bool(c.is_async) != cexp["async"]:
                bad.append("%s: is_async %s expected %s" % (w, c.is_async, cexp["async"]))


def check_child_objs(env, ctx, node, bad, where):
    """identity of non-manager callbacks (function, method self, wrapped callback)"""
    regs = []
    for idx, op in enumerate(node["ops"]):
        if op["op"] in ("pop_all", "close"):
            regs = []
        else:
            regs.append((idx, op))
    for c, (idx, op) in zip(ctx.children, regs):
        name = op["op"]
        f = env.fns.get((node["id"], idx))
        if name in ("push_fn", "push_async_exit_fn") and c.obj is not f:
            bad.append("%s: child %d obj is not the pushed function" % (where, idx))
        if name in ("push_method", "push_async_exit_method") and c.obj is not f:
            bad.append("%s: child %d obj is not the bound method's self" % (where, idx))
        if name in ("callback", "push_async_callback") and getattr(c.obj, "__wrapped__", None) is not f:
            bad.append("%s: child %d obj does not wrap the registered callback" % (where, idx))


def run_case(case):
    env = Env()
    root = case["root"]
    env.nodes = index_nodes(root, {})
    bad = []
    exiting = case["exiting"]
    stepwise = case.get("stepwise")
    with warnings.catch_warnings(record=True) as wl:
        warnings.simplefilter("always")
        if stepwise:
            # ExitStackOps: apply the operations one at a time on the live, entered stack
            full_ops = root["ops"]
            root0 = dict(root, ops=[])
            mgr = env.build(root0)
            co = outer_carrier(env, mgr, root["async"])
            co.send(None)
            for k, op in enumerate(full_ops):
                env.apply(mgr, root, k, op)
                st = stackscope.extract(co)
                cf = carrier_frame(st)
                if len(cf.contexts) != 1:
                    bad.append("after op %d (%s): the carrier frame has %d contexts" % (k, op["op"], len(cf.contexts)))
                    break
                ctx = cf.contexts[0]
                exp = stepwise[k]
                compare(env, ctx, exp, "after op %d (%s)" % (k, op["op"]), bad)
                check_child_objs(env, ctx, dict(root, ops=full_ops[:k + 1]), bad, "after op %d" % k)
                if st.error is not None:
                    bad.append("after op %d: error %r" % (k, st.error))
        else:
            mgr = env.build(root, root_exiting=exiting and root["k"] != "stack")
            co = outer_carrier(env, mgr, root["async"])
            co.send(None)
            if exiting:
                co.send(None)       # leave the body: now suspended inside the root manager's exit
            st = stackscope.extract(co)
            if st.error is not None:
                bad.append("error %r" % (st.error,))
            fr = carrier_frame(st)
            if len(fr.contexts) != 1:
                bad.append("carrier frame has %d contexts" % len(fr.contexts))
            else:
                compare(env, fr.contexts[0], case["expected"], "root", bad)
                if root["k"] == "stack":
                    check_child_objs(env, fr.contexts[0], root, bad, "root")
            if not exiting and not bad:
                # second pass on a fresh build: a sibling context of the same frame whose elaboration fails
                env2 = Env()
                env2.nodes = index_nodes(root, {})
                mgr2 = env2.build(root)
                co2 = carrier_sib(env2, mgr2, root["async"])
                co2.send(None)
                st2 = stackscope.extract(co2)
                fr2 = st2.frames[0]
                if not isinstance(st2.error, BombError):
                    bad.append("sibling fault: Stack.error is %r, expected the sibling's BombError alone" % (st2.error,))
                if len(fr2.contexts) != 2 or not isinstance(fr2.contexts[0].obj, Bomb):
                    bad.append("sibling fault: carrier frame contexts %s" % [type(c.obj).__name__ for c in fr2.contexts])
                else:
                    compare(env2, fr2.contexts[1], case["expected"], "root (after a sibling context whose elaboration failed)", bad)
                    if root["k"] == "stack":
                        check_child_objs(env2, fr2.contexts[1], root, bad, "root (sibling fault)")
                try:
                    for _ in range(10):
                        co2.send(None)
                except StopIteration:
                    pass
                except BaseException as ex:
                    if "generator didn't stop" not in repr(ex) and "generator didn't yield" not in repr(ex):
                        bad.append("sibling-fault carrier failed to finish: %r" % (ex,))
                for es in env2.keep:
                    try:
                        if hasattr(es, "aclose"):
                            drive(es.aclose())
                        else:
                            es.close()
                    except BaseException:
                        pass
            if exiting and root["k"] == "gcm":
                # the exiting manager's generator frames appear in the main frame series instead
                names = [f.funcname for f in st.frames]
                if "outer_%d" % root["id"] not in names:
                    bad.append("exiting: generator frame outer_%d not in the main frame series %s" % (root["id"], names))
    for w in wl:
        if issubclass(w.category, RuntimeWarning) and "never awaited" not in str(w.message):
            bad.append("warning: %s" % str(w.message)[:150])
    # clean up: run the carrier to completion
    try:
        for _ in range(10):
            co.send(None)
    except StopIteration:
        pass
    except BaseException as ex:
        # (exiting a generator-based manager that was pushed but never entered is the harness's doing, not stackscope's)
        if "generator didn't stop" not in repr(ex) and "generator didn't yield" not in repr(ex):
            bad.append("carrier failed to finish: %r" % (ex,))
    for es in env.keep:
        try:
            if hasattr(es, "aclose"):
                drive(es.aclose())
            else:
                es.close()
        except BaseException:
            pass
    return bad


def main():
    data = json.load(open(sys.argv[1]))
    out = {"n": 0, "mismatches": [], "skipped_no_backport": 0}
    for case in data["cases"]:
        try:
            bad = run_case(case)
        except NoBackport:
            out["skipped_no_backport"] += 1     # this interpreter has no async_generator package
            continue
        except BaseException as ex:
            import traceback
            bad = ["harness exception: " + traceback.format_exc()[-600:]]
        out["n"] += 1
        if bad:
            out["mismatches"].append({"tid": case["tid"], "bad": bad, "root": case["root"], "exiting": case["exiting"]})
    json.dump(out, open(sys.argv[2], "w"))


if __name__ == "__main__":
    main()
