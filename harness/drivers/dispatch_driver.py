"""Replay driver for M9 (CodeDispatch): towers, nested names, customize options, registry and IdentityDict
histories produced by TLC are executed against stackscope's real get_code / code_dispatch / customize /
IdentityDict.  stdlib-only.   usage: dispatch_driver.py <scenarios.json> <out.json>"""
import functools
import json
import sys
import types
import warnings

import stackscope
from stackscope import lowlevel

PY = sys.version_info[:2]
RAN = {}


# ------------------------------------------------------------------ towers
def make_base():
    def base(*args, **kw):
        RAN["code"] = sys._getframe(0).f_code
        return "ran"
    return base


def decoy(*args, **kw):
    return "decoy"


class WrapObj:
    """a class-based decorator: the instance is callable through a Python-level __call__ and points at what it wraps
    through __wrapped__ (functools.update_wrapper)"""

    def __init__(self, fn):
        functools.update_wrapper(self, fn)
        self._fn = fn

    def __call__(self, *a, **k):
        return self._fn(*a, **k)


def build_tower(layers, top):
    base = make_base()
    # an ordinary attribute that merely LOOKS like functools.partial's: only real partial objects are unwrapped
    base.func = decoy
    base.args, base.keywords = (), {}
    x = base
    for l in layers:          # innermost layer first
        if l == "partial":
            x = functools.partial(x, 1)
        elif l == "wraps":
            inner = x

            @functools.wraps(inner)
            def w(*a, _inner=inner, **k):
                return _inner(*a, **k)
            w.func = decoy
            x = w
        elif l == "method":
            x = types.MethodType(x, object())
        elif l == "wrapobj":
            x = WrapObj(x)
        else:
            raise ValueError(l)
    if top == "classmethod":
        x = classmethod(x)
    elif top == "staticmethod":
        x = staticmethod(x)
    return base, x


def run_tower(scen):
    bad = []
    base, tower = build_tower(scen["layers"], scen["top"])
    try:
        code = lowlevel.get_code(tower)
    except Exception as ex:
        return ["get_code raised %r" % (ex,)]
    if code is not base.__code__:
        bad.append("get_code resolved to %r, not the base function's code" % (code,))
    # "the very code object that executes when the target is called"
    callee = tower
    if scen["top"] == "classmethod":
        callee = tower.__get__(None, type("K", (), {}))
    elif scen["top"] == "staticmethod":
        callee = tower.__get__(None, type("K", (), {}))
    RAN.clear()
    try:
        callee()
    except TypeError as ex:
        return bad + ["harness: tower not callable: %r" % (ex,)]
    if RAN.get("code") is not code:
        bad.append("the code that ran is not the code get_code returned")
    # a registration made through the tower applies to frames of the base function
    disp = lowlevel.code_dispatch(lambda fr: fr.f_code)(lambda fr: "default")
    disp.register(tower)(lambda fr: "special")

    class F:
        pass
    f = F()
    f.f_code = base.__code__
    if disp(f) != "special":
        bad.append("registration through the tower does not dispatch for the base function's frames")
    return bad


# ------------------------------------------------------------------ nested names
def render_nest(forest, ind, lines):
    for n in forest:
        pad = "    " * ind
        if n["kind"] == "fn":
            params = "self=None" if True else ""
            lines.append("%sdef %s(%s):" % (pad, n["name"], params))
            render_nest(n["kids"], ind + 1, lines)
            lines.append("%s    return (sys._getframe(0).f_code, locals())" % pad)
        else:
            lines.append("%sclass %s:" % (pad, n["name"]))
            if not n["kids"]:
                lines.append("%s    pass" % pad)
            render_nest(n["kids"], ind + 1, lines)


def run_nest(scen):
    lines = ["import sys", "def top():"]
    render_nest(scen["nesting"], 1, lines)
    lines.append("    return (sys._getframe(0).f_code, locals())")
    ns = {}
    exec(compile("\n".join(lines) + "\n", "<verif-nest>", "exec"), ns)
    # walk the path by really calling / looking up, recording the code that runs
    code, scope = ns["top"]()
    for name in scen["path"]:
        obj = scope[name]
        if isinstance(obj, type):
            scope = vars(obj)
            code = None
        else:
            code, scope = obj()
    try:
        got = lowlevel.get_code(ns["top"], *scen["path"])
    except Exception as ex:
        return ["get_code raised %r" % (ex,)]
    if got is not code:
        return ["get_code(top, %s) is %r but the code that runs is %r" % (scen["path"], got, code)]
    # a registration through (target, *names) applies to frames running exactly that code, in every calling form
    bad = []

    class F:
        pass
    fr = F()
    fr.f_code = code
    for form in ("decorator", "direct positional", "func keyword"):
        disp = lowlevel.code_dispatch(lambda f: f.f_code)(lambda f: "default")
        handler = (lambda f: "special")
        if form == "decorator":
            ret = disp.register(ns["top"], *scen["path"])(handler)
        elif form == "direct positional":
            ret = disp.register(ns["top"], *(list(scen["path"]) + [handler]))
        else:
            ret = disp.register(ns["top"], *scen["path"], func=handler)
        if ret is not handler:
            bad.append("register(top, %s) in the %s form did not return the implementation" % (scen["path"], form))
        if disp(fr) != "special":
            bad.append("register(top, %s) in the %s form registered nothing for the nested function's code" % (scen["path"], form))
    return bad


# ------------------------------------------------------------------ customize
_counter = [0]


def run_customize(scen, effect):
    _counter[0] += 1
    n = _counter[0]
    src = ("def inner_%d():\n    yield 1\n"
           "def outer_%d():\n    yield from inner_%d()\n"
           "def repl_%d():\n    yield 2\n") % (n, n, n, n)
    ns = {}
    exec(compile(src, "<verif-customize-%d>" % n, "exec"), ns)
    outer, inner, repl = ns["outer_%d" % n], ns["inner_%d" % n], ns["repl_%d" % n]
    rg = repl()
    next(rg)
    called = []

    def elab_none(frame, next_inner):
        called.append(frame)
        return None

    def elab_repl(frame, next_inner):
        called.append(frame)
        return rg

    kw = dict(hide=scen["hide"], hide_line=scen["hide_line"], prune=scen["prune"])
    if scen["elab"] == "returns_none":
        kw["elaborate"] = elab_none
    elif scen["elab"] == "replace":
        kw["elaborate"] = elab_repl
    if scen["form"] == "direct":
        ret = stackscope.customize(outer, **kw)
        if ret is not outer:
            return ["customize(target, ...) did not return the target"]
    else:
        ret = stackscope.customize(**kw)(outer)
        if ret is not outer:
            return ["@customize(...) did not return the decorated function unchanged"]
    then = scen.get("then", "none")
    if then == "reset_direct":
        if stackscope.customize(outer) is not outer:
            return ["customize(target) with no options did not return the target"]
    elif then == "reset_decorator":
        if stackscope.customize()(outer) is not outer:
            return ["@customize() with no options did not return the decorated function"]
    g = outer()
    next(g)
    with warnings.catch_warnings(record=True):
        warnings.simplefilter("always")
        st = stackscope.extract(g, with_contexts=False)
    bad = []
    if st.error is not None:
        bad.append("error %r" % (st.error,))
    names = [f.funcname for f in st.frames]
    if not names or names[0] != "outer_%d" % n:
        return bad + ["first frame is %s" % names]
    fr = st.frames[0]
    if bool(fr.hide) != effect["hide"]:
        bad.append("Frame.hide is %s, option hide=%s" % (fr.hide, scen["hide"]))
    if bool(fr.hide_line) != effect["hide_line"]:
        bad.append("Frame.hide_line is %s, option hide_line=%s" % (fr.hide_line, scen["hide_line"]))
    want = {"kept": ["inner_%d" % n], "pruned": [], "replaced": ["repl_%d" % n]}[effect["rest"]]
    if names[1:] != want:
        bad.append("frames after the customized one: %s, expected %s (%s)" % (names[1:], want, effect["rest"]))
    if scen["elab"] != "none" and not called and then == "none":
        bad.append("elaborate callback was not called")
    if then != "none" and called:
        bad.append("the elaborate callback of a REPLACED registration was called")
    # other code is unaffected: the callee's own frame carries no flags
    for f in st.frames[1:]:
        if f.hide or f.hide_line:
            bad.append("frame %s of other code got flags" % f.funcname)
    g.close()
    rg.close()
    return bad


# ------------------------------------------------------------------ registry / IdentityDict
SRC = "def same():\n    return 1\n"


def run_registry(ops):
    c1 = compile(SRC, "<verif-eq>", "exec").co_consts[0]
    c2 = compile(SRC, "<verif-eq>", "exec").co_consts[0]
    c3 = compile("def other():\n    return 2\n", "<verif-eq>", "exec").co_consts[0]
    if not (c1 == c2 and c1 is not c2):
        return ["harness: could not build equal-but-distinct code objects"]
    codes = {1: c1, 2: c2, 3: c3}
    disp = lowlevel.code_dispatch(lambda fr: fr.f_code)(lambda fr: "default")
    # a registry belongs to ONE dispatcher: a second dispatcher (and the library's own hooks) never see these registrations
    bystander = lowlevel.code_dispatch(lambda fr: fr.f_code)(lambda fr: "bystander-default")
    handlers = {"h1": lambda fr: "h1", "h2": lambda fr: "h2"}

    class F:
        pass
    bad = []
    for i, o in enumerate(ops):
        if o["op"] == "register":
            disp.register(codes[o["k"]], handlers[o["v"]])
        else:
            f = F()
            f.f_code = codes[o["k"]]
            got = disp(f)
            if got != o["res"]:
                bad.append("op %d dispatch(code %d): spec %s real %s (history %s)" % (i, o["k"], o["res"], got, [(x["op"], x["k"], x["v"]) for x in ops[:i + 1]]))
            if (disp.dispatch(f)(f)) != got:
                bad.append("dispatch() and call disagree")
            if bystander(f) != "bystander-default":
                bad.append("op %d: a registration made on one dispatcher is seen by another one (%s)" % (i, bystander(f)))
            if codes[o["k"]] in stackscope.elaborate_frame.registry or codes[o["k"]] in stackscope.unwrap_context_generator.registry:
                bad.append("op %d: a registration made on a private dispatcher shows up in the registry of a library hook" % i)
    # registry view
    return bad


def run_idict(ops, final):
    k1 = tuple([1, 2])
    k2 = tuple([1, 2])
    k3 = "x"
    assert k1 == k2 and k1 is not k2
    keys = {1: k1, 2: k2, 3: k3}
    ident = {id(k1): 1, id(k2): 2, id(k3): 3}
    d = lowlevel.IdentityDict()
    bad = []
    for i, o in enumerate(ops):
        k = keys.get(o["k"])
        try:
            if o["op"] == "set":
                d[k] = o["v"]
                got = "ok"
            elif o["op"] == "get":
                got = d[k]
            elif o["op"] == "del":
                del d[k]
                got = "ok"
            elif o["op"] == "pop":
                got = d.pop(k)
            elif o["op"] == "popd":
                got = d.pop(k, o["v"])
            elif o["op"] == "popitem":
                kk, vv = d.popitem()
                got = [ident[id(kk)], vv]
            elif o["op"] == "setdefault":
                got = d.setdefault(k, o["v"])
            elif o["op"] == "clear":
                d.clear()
                got = "ok"
            elif o["op"] == "len":
                got = len(d)
            elif o["op"] == "contains":
                got = k in d
        except KeyError:
            got = "KeyError"
        exp = o["res"]
        if isinstance(exp, (list, tuple)):
            exp = list(exp)
        if got != exp:
            bad.append("op %d %s(%s): spec %r real %r (history %s)" % (i, o["op"], o["k"], exp, got, [(x["op"], x["k"], x["v"]) for x in ops[:i + 1]]))
            break
    items = [[ident[id(k)], v] for k, v in d.items()]
    if not bad and items != [list(x) for x in final]:
        bad.append("final items: spec %s real %s" % (final, items))
    if not bad:
        if [ident[id(k)] for k in d] != [x[0] for x in final] or len(d) != len(final):
            bad.append("iteration / len disagree with the model map")
    return bad


def main():
    data = json.load(open(sys.argv[1]))
    out = {"n": 0, "by_mode": {}, "mismatches": []}
    for s in data["scenarios"]:
        mode = s["mode"]
        try:
            if mode == "tower":
                bad = run_tower(s["scen"])
            elif mode == "nest":
                bad = run_nest(s["scen"])
            elif mode == "customize":
                bad = run_customize(s["scen"], s["effect"])
            elif mode == "registry":
                bad = run_registry(s["ops"])
            else:
                bad = run_idict(s["ops"], s["dict"])
        except BaseException as ex:
            import traceback
            bad = ["harness exception: " + traceback.format_exc()[-500:]]
        out["n"] += 1
        out["by_mode"][mode] = out["by_mode"].get(mode, 0) + 1
        if bad:
            out["mismatches"].append({"mode": mode, "scen": s.get("scen"), "bad": bad})
    json.dump(out, open(sys.argv[2], "w"))


if __name__ == "__main__":
    main()
