"""Replay driver for C14 (TaskTree): command-interpreting Trio tasks grow the task tree action by action along
TLC's behaviours; at every observation extract(root, recurse_child_tasks=True) is compared with the tree the
specification holds (and the spec's tree with Trio's own child_nurseries / child_tasks: ground truth).
Plus to_thread / from_thread ping-pong chains.  Needs trio (project venv, 3.12).
usage: trio_driver.py <behaviours.json> <out.json>"""
import json
import sys
import warnings

import trio
import trio.testing

try:
    import greenback
except ImportError:          # pragma: no cover
    greenback = None

import stackscope


class GroundTruth(Exception):
    pass


class W:
    def __init__(self):
        self.cmd = {}        # task id -> (send, recv) memory channel
        self.tasks = {}      # task id -> trio task
        self.nobj = {}       # nursery id -> trio.Nursery
        self.nstack = {}     # task id -> [nursery ids]
        self.never = False
        self.gb = {}         # task id -> True once the task has a greenback portal
        self.status = {}     # task id -> task_status of a child started with nursery.start() that has not called started()

    def chan(self, tid):
        if tid not in self.cmd:
            self.cmd[tid] = trio.open_memory_channel(10)
        return self.cmd[tid]


async def worker(w, tid):
    w.tasks[tid] = trio.lowlevel.current_task()
    w.nstack[tid] = []
    await interp(w, tid)


async def started_worker(w, tid, nid, parent, task_status):
    w.tasks[tid] = trio.lowlevel.current_task()
    w.nstack[tid] = []
    w.status[tid] = task_status
    # Trio's inner nursery is the innermost one the parent has open right now
    w.nobj[nid] = w.tasks[parent].child_nurseries[-1]
    w.nstack[parent].append(nid)
    await interp(w, tid)


def sync_receive(w, tid):
    """a portalized task waits for its next command in a synchronous function, through the await_ bridge"""
    return greenback.await_(w.chan(tid)[1].receive())


async def interp(w, tid):
    while True:
        if w.gb.get(tid):
            cmd = sync_receive(w, tid)
        else:
            cmd = await w.chan(tid)[1].receive()
        a = cmd["a"]
        if a == "ensure":
            await greenback.ensure_portal()
            w.gb[tid] = True
        elif a == "open":
            await OPENERS[cmd["e"]](w, tid, cmd["x"])
        elif a == "spawn":
            w.nobj[w.nstack[tid][-1]].start_soon(worker, w, cmd["x"])
        elif a == "start":
            # await nursery.start(fn): until fn calls started() the child sits in a nursery Trio opens inside start()
            await w.nobj[w.nstack[tid][-1]].start(started_worker, w, cmd["x"], int(cmd["e"]), tid)
            w.nstack[tid].pop()
        elif a == "started":
            w.status.pop(tid).started()
        elif a in ("leave", "finish"):
            return


def push(w, tid, nid, n):
    w.nobj[nid] = n
    w.nstack[tid].append(nid)


async def open_plain(w, tid, nid):
    async with trio.open_nursery() as n:
        push(w, tid, nid, n)
        await interp(w, tid)
    w.nstack[tid].pop()


async def open_tryexc(w, tid, nid):
    async with trio.open_nursery() as n:
        push(w, tid, nid, n)
        try:
            await interp(w, tid)
        except KeyError:
            pass
    w.nstack[tid].pop()


async def open_tryfin(w, tid, nid):
    async with trio.open_nursery() as n:
        push(w, tid, nid, n)
        try:
            await interp(w, tid)
        finally:
            w.never = False
    w.nstack[tid].pop()


async def open_condret(w, tid, nid):
    async with trio.open_nursery() as n:
        push(w, tid, nid, n)
        await interp(w, tid)
        if w.never:
            return
    w.nstack[tid].pop()


import contextlib


@contextlib.asynccontextmanager
async def service(w, tid, nid):
    """the open_service() idiom: the nursery lives in a stdlib @asynccontextmanager generator"""
    async with trio.open_nursery() as n:
        push(w, tid, nid, n)
        yield n


@stackscope.unwrap_context_generator.register(service.__wrapped__)
def _service_ucg(frame, context):
    """a do-nothing hook, as pytest-trio's glue has one for its fixture manager: while the task is blocked in the
    manager's __aexit__ the contextlib glue then RE-ENTERS extract_outermost in the middle of the extraction"""
    return None


async def open_acm(w, tid, nid):
    async with service(w, tid, nid):
        await interp(w, tid)
    w.nstack[tid].pop()


class NurseryWrapper:
    """an async manager that merely wraps trio.open_nursery(); a registered unwrap_context hook tells stackscope"""

    def __init__(self, inner):
        self.inner = inner

    def __bool__(self):
        return False

    async def __aenter__(self):
        return await self.inner.__aenter__()

    async def __aexit__(self, *exc):
        return await self.inner.__aexit__(*exc)


@stackscope.unwrap_context.register(NurseryWrapper)
def _unwrap_nursery_wrapper(mgr, context):
    return mgr.inner


async def open_wrap(w, tid, nid):
    async with NurseryWrapper(trio.open_nursery()) as n:
        push(w, tid, nid, n)
        await interp(w, tid)
    w.nstack[tid].pop()


OPENERS = {"wrap": open_wrap, "acm": open_acm, "plain": open_plain, "tryexc": open_tryexc, "tryfin": open_tryfin, "condret": open_condret}


def check_ground_truth(w, tree):
    """the spec's tree must be Trio's tree (else the MODEL is wrong)"""
    t = w.tasks[tree["task"]]
    real = list(t.child_nurseries)
    if [id(n) for n in real] != [id(w.nobj[x["id"]]) for x in tree["nurseries"]]:
        raise GroundTruth("task %d: Trio has %d open nurseries, spec %d" % (tree["task"], len(real), len(tree["nurseries"])))
    for n, x in zip(real, tree["nurseries"]):
        kids = {id(c) for c in n.child_tasks}
        if kids != {id(w.tasks[k["task"]]) for k in x["kids"]}:
            raise GroundTruth("nursery %d: children differ" % x["id"])
        for k in x["kids"]:
            check_ground_truth(w, k)


def compare(w, st, tree, bad, where):
    if st.error is not None:
        bad.append("%s: error %r" % (where, st.error))
    if st.root is not w.tasks[tree["task"]]:
        bad.append("%s: root is not the task" % where)
    if not st.frames:
        bad.append("%s: no frames (stub?)" % where)
        return
    # nurseries in nesting order: contexts of the frames in order, descending into the inner stacks of
    # generator-based managers (a nursery opened inside an @asynccontextmanager belongs to the task all the same)
    ctxs = []

    def walk(stack):
        for f in stack.frames:
            for c in f.contexts:
                if isinstance(c.obj, trio.Nursery):
                    ctxs.append((f, c))
                elif c.inner_stack is not None:
                    walk(c.inner_stack)
    walk(st)
    want = tree["nurseries"]
    if [id(c.obj) for _, c in ctxs] != [id(w.nobj[x["id"]]) for x in want]:
        have = []
        for _, c in ctxs:
            have.append(next((nid for nid, n in w.nobj.items() if n is c.obj), "?"))
        bad.append("%s: nurseries %s, expected %s (endings %s)" % (where, have, [x["id"] for x in want], [x["ending"] for x in want]))
        return
    for idx, ((f, c), x) in enumerate(zip(ctxs, want)):
        last = idx == len(want) - 1
        exiting = last and tree["where"] == "aexit"
        if bool(c.is_exiting) != exiting:
            bad.append("%s: nursery %d is_exiting %s, expected %s" % (where, x["id"], c.is_exiting, exiting))
        kids = [k for k in c.children]
        if any(not isinstance(k, stackscope.Stack) for k in kids):
            bad.append("%s: nursery %d has non-Stack children" % (where, x["id"]))
            continue
        if {id(k.root) for k in kids} != {id(w.tasks[y["task"]]) for y in x["kids"]} or len(kids) != len(x["kids"]):
            bad.append("%s: nursery %d children %d, expected tasks %s" % (where, x["id"], len(kids), [y["task"] for y in x["kids"]]))
            continue
        for y in x["kids"]:
            k = next(k for k in kids if k.root is w.tasks[y["task"]])
            compare(w, k, y, bad, "%s/n%d/t%d" % (where, x["id"], y["task"]))


async def run_behaviour(beh, out):
    w = W()
    bad = []
    async with trio.open_nursery() as top:
        top.start_soon(worker, w, 1)
        await trio.testing.wait_all_tasks_blocked()
        for k, a in enumerate(beh["acts"]):
            if a["a"] == "observe":
                check_ground_truth(w, a["tree"])
                with warnings.catch_warnings(record=True) as wl:
                    warnings.simplefilter("always")
                    st = stackscope.extract(w.tasks[1], recurse_child_tasks=True)
                out["observations"] += 1
                b = []
                compare(w, st, a["tree"], b, "t1")
                for x in wl:
                    if issubclass(x.category, RuntimeWarning):
                        b.append("warning: %s" % str(x.message)[:160])
                if b:
                    bad.append({"step": k, "bad": b[:4], "tree": a["tree"], "acts": beh["acts"][:k + 1]})
                    break
            else:
                await w.chan(a["t"])[0].send(a)
                await trio.testing.wait_all_tasks_blocked()
        top.cancel_scope.cancel()
    return bad


async def pingpong(d, where):
    results = []

    class Falsy:
        """a callable that is a FALSY object (a handler collection with __call__, say)"""

        def __init__(self, fn):
            self.fn = fn

        def __bool__(self):
            return False

        def __call__(self, *a):
            return self.fn(*a)

    async def t_level(k):
        if k > 0:
            return await trio.to_thread.run_sync(Falsy(s_level) if k % 2 else s_level, k)
        task_root = ROOT["task"]
        if where == "inside":
            results.append(stackscope.extract(task_root))
            return
        await trio.sleep_forever()

    def s_level(k):
        return trio.from_thread.run(t_level, k - 1)

    ROOT = {}

    async def root():
        ROOT["task"] = trio.lowlevel.current_task()
        await t_level(d)

    async with trio.open_nursery() as n:
        n.start_soon(root)
        await trio.testing.wait_all_tasks_blocked(0.05)
        if where == "outside":
            results.append(stackscope.extract(ROOT["task"]))
        n.cancel_scope.cancel()
    return results


def run_pingpong(bad, want_by_d):
    n = 0
    for d, want in enumerate(want_by_d):
        for where in ("outside", "inside"):
            with warnings.catch_warnings(record=True) as wl:
                warnings.simplefilter("always")
                try:
                    results = trio.run(pingpong, d, where)
                except BaseException as ex:
                    bad.append("pingpong d=%d %s: harness exception %r" % (d, where, ex))
                    continue
            n += 1
            if len(results) != 1:
                bad.append("pingpong d=%d %s: %d results" % (d, where, len(results)))
                continue
            st = results[0]
            seq = [[("t" if f.funcname == "t_level" else "s"), f.pyframe.f_locals.get("k")] for f in st.frames if f.funcname in ("t_level", "s_level")]
            if seq != [list(x) for x in want]:
                bad.append("pingpong d=%d %s: frames %s expected %s" % (d, where, seq, want))
            if st.error is not None:
                bad.append("pingpong d=%d %s: error %r" % (d, where, st.error))
            if any(f.hide for f in st.frames if f.funcname in ("t_level", "s_level")):
                bad.append("pingpong d=%d %s: a user frame is hidden" % (d, where))
            if [x for x in wl if issubclass(x.category, stackscope.InspectionWarning)]:
                bad.append("pingpong d=%d %s: InspectionWarning" % (d, where))
    return n


# ------------------------------------------------------------------ foreign threads calling from_thread.run(token)
import queue
import sys
import threading
import time


class FT:
    """a thread not started by Trio; on command it calls trio.from_thread.run(afn, self, d, trio_token=token)"""

    def __init__(self, tag, token):
        self.tag, self.token = tag, token
        self.cmd = queue.Queue()
        self.callno = 0
        self.serving = {}          # call number -> the Trio task serving it
        self.bottom = 0            # call number whose alternation chain has reached its parking point
        self.release = None        # trio.Event of the current call
        self.returned = 0          # number of calls that have returned in the thread
        self.thread = threading.Thread(target=self.body, daemon=True)
        self.thread.start()

    def body(self):
        while True:
            c = self.cmd.get()
            if c is None:
                return
            trio.from_thread.run(afn, self, c, trio_token=self.token)
            self.returned += 1

    def chain(self):
        """ground truth: the thread's real frames, outermost first"""
        f = sys._current_frames().get(self.thread.ident)
        out = []
        while f is not None:
            out.append(f)
            f = f.f_back
        return out[::-1]

    def blocked_in_call(self):
        """the thread sits in from_thread.run's wait for the reply (a C-level queue get made by _send_message_to_trio):
        same innermost frame at the same instruction in two samples"""
        def sample():
            ch = self.chain()
            if not ch or not any(f.f_code is trio.from_thread.run.__code__ for f in ch):
                return None
            top = ch[-1]
            if top.f_code.co_name != "_send_message_to_trio" and top.f_code.co_filename not in (queue.__file__, threading.__file__):
                return None
            return (top, top.f_lasti)
        a = sample()
        if a is None:
            return False
        time.sleep(0.003)
        return sample() == a


async def afn(ft, d):
    callno = ft.callno
    ft.serving[callno] = trio.lowlevel.current_task()
    ft.release = trio.Event()
    await ft_t_level(ft, d)


async def ft_t_level(ft, k):
    if k > 0:
        return await trio.to_thread.run_sync(ft_s_level, ft, k)
    ft.bottom = ft.callno
    await ft.release.wait()


def ft_s_level(ft, k):
    return trio.from_thread.run(ft_t_level, ft, k - 1)


def ft_observe(fts, a, out, bad, acts):
    ft = fts[a["t"]]
    exp = a["exp"]
    chain = ft.chain()
    with warnings.catch_warnings(record=True) as wl:
        warnings.simplefilter("always")
        st = stackscope.extract(ft.thread)
    out["observations"] += 1
    b = []
    frames = [f.pyframe for f in st.frames]
    if st.error is not None:
        b.append("error %r" % (st.error,))
    if exp["state"] != "serving":
        if frames != chain:
            b.append("thread %s (%s): frames are not the thread's own: %s, the thread has %s" % (
                ft.tag, exp["state"], [f.funcname for f in st.frames], [f.f_code.co_name for f in chain]))
    else:
        cut = next((i for i, f in enumerate(chain) if f.f_code is trio.from_thread.run.__code__), None)
        if cut is None:
            raise GroundTruth("thread %s is not inside from_thread.run" % ft.tag)
        if frames[:cut + 1] != chain[:cut + 1]:
            b.append("thread %s (serving): the outer frames are not the thread's own up to from_thread.run" % ft.tag)
        tail = st.frames[cut + 1:]
        proj = []
        for f in tail:
            loc = f.pyframe.f_locals
            if f.funcname in ("afn", "ft_t_level", "ft_s_level") and f.pyframe.f_globals is globals():
                if loc.get("ft") is not ft:
                    b.append("thread %s: frame %s of ANOTHER thread's call" % (ft.tag, f.funcname))
                proj.append(["afn", loc.get("callno")] if f.funcname == "afn" else
                            [("t" if f.funcname == "ft_t_level" else "s"), loc.get("k")])
            if f.funcname in ("run_foreign", "ft_hold"):
                b.append("thread %s: frame %s of the main task" % (ft.tag, f.funcname))
        if proj != [list(x) for x in exp["tail"]]:
            b.append("thread %s (serving call %d): task frames %s, expected %s" % (ft.tag, exp["call"], proj, exp["tail"]))
        task = ft.serving.get(exp["call"])
        if task is None:
            raise GroundTruth("no task registered for call %d of %s" % (exp["call"], ft.tag))
        if tail and tail[0].pyframe is not task.coro.cr_frame:
            b.append("thread %s: the frames after from_thread.run do not start with the serving task's coroutine" % ft.tag)
    if [x for x in wl if issubclass(x.category, stackscope.InspectionWarning)]:
        b.append("InspectionWarning")
    if b:
        bad.append({"bad": b[:3], "acts": acts})


def ft_wait(pred, what):
    t0 = time.time()
    while not pred():
        if time.time() - t0 > 10:
            raise GroundTruth("timeout waiting for " + what)
        time.sleep(0.001)


async def ft_await(pred, what):
    t0 = time.time()
    while not pred():
        if time.time() - t0 > 10:
            raise GroundTruth("timeout waiting for " + what)
        await trio.sleep(0.001)


def ft_hold(fts, acts, i, out, bad):
    """the Trio thread is stuck in synchronous code: obey the actions up to the next unblock"""
    while i < len(acts) and acts[i]["a"] != "unblock":
        a = acts[i]
        if a["a"] == "call":
            ft = fts[a["t"]]
            ft.callno += 1
            ft.cmd.put(a["n"])
            ft_wait(ft.blocked_in_call, "thread to block in from_thread.run")
        elif a["a"] == "observe":
            ft_observe(fts, a, out, bad, acts[:i + 1])
        else:
            raise GroundTruth("action %s while busy" % a["a"])
        i += 1
    return i


async def run_foreign(beh, out):
    acts = beh["acts"]
    token = trio.lowlevel.current_trio_token()
    fts = {t: FT(t, token) for t in beh["threads"]}
    bad = []
    i = 0
    try:
        while i < len(acts) and not bad:
            a = acts[i]
            if a["a"] == "block":
                i = ft_hold(fts, acts, i + 1, out, bad)
                # leaving the synchronous code: every queued call gets its task and runs to its parking point
                i += 1
                for ft in fts.values():
                    if ft.callno > ft.returned:
                        await ft_await(lambda ft=ft: ft.bottom == ft.callno, "queued call to be served")
                await trio.testing.wait_all_tasks_blocked()
                continue
            if a["a"] == "call":
                ft = fts[a["t"]]
                ft.callno += 1
                ft.cmd.put(a["n"])
                await ft_await(lambda: ft.bottom == ft.callno, "call to be served")
                await trio.testing.wait_all_tasks_blocked()
            elif a["a"] == "serve":
                if fts[a["t"]].callno not in fts[a["t"]].serving:
                    raise GroundTruth("serve: no task")
            elif a["a"] == "finish":
                ft = fts[a["t"]]
                ft.release.set()
                await ft_await(lambda: ft.returned == ft.callno, "call to return")
                ft_wait(lambda: ft.chain() and ft.chain()[-1].f_code.co_filename in (queue.__file__, threading.__file__), "thread idle")
            elif a["a"] == "observe":
                ft_observe(fts, a, out, bad, acts[:i + 1])
            i += 1
    finally:
        for ft in fts.values():
            if ft.callno > ft.returned:
                await ft_await(lambda ft=ft: ft.bottom == ft.callno, "pending call to be served (cleanup)")
                ft.release.set()
                await ft_await(lambda ft=ft: ft.returned == ft.callno, "pending call to return (cleanup)")
            ft.cmd.put(None)
    return bad


class BackgroundRun:
    """another trio.run, alive in a thread of its own and started BEFORE the run under test: a foreign thread's
    token must be matched to its own run, not to whichever run comes first"""

    def __init__(self):
        self.ready = threading.Event()
        self.thread = threading.Thread(target=lambda: trio.run(self._main), daemon=True)
        self.thread.start()
        if not self.ready.wait(10):
            raise GroundTruth("background run did not start")

    async def _main(self):
        self.token = trio.lowlevel.current_trio_token()
        self.scope = trio.CancelScope()
        self.ready.set()
        with self.scope:
            await trio.sleep_forever()

    def stop(self):
        self.token.run_sync_soon(self.scope.cancel)
        self.thread.join(10)


def in_fresh_thread(fn):
    box = {}

    def body():
        try:
            box["value"] = fn()
        except BaseException as ex:
            box["error"] = ex
    th = threading.Thread(target=body, daemon=True)
    th.start()
    th.join(120)
    if th.is_alive():
        raise GroundTruth("run in a fresh thread did not finish")
    if "error" in box:
        raise box["error"]
    return box["value"]


def main_foreign(data, out):
    out["foreign_n"] = 0
    out["foreign"] = []
    out["foreign_two_runs"] = 0
    behs = data.get("foreign", [])
    background = None
    for bi, beh in enumerate(behs):
        # the second half of the behaviours runs while another Trio run is alive in another thread
        if background is None and bi >= len(behs) // 2:
            background = BackgroundRun()
        if background is not None:
            out["foreign_two_runs"] += 1
        try:
            if background is not None:
                # in a thread younger than the background run's: this run's context is then not the first one
                bad = in_fresh_thread(lambda: trio.run(run_foreign, beh, out))
            else:
                bad = trio.run(run_foreign, beh, out)
        except GroundTruth as ex:
            out["gt_errors"].append({"behaviour": "foreign %d" % bi, "what": str(ex)})
            continue
        except BaseException:
            import traceback
            out["gt_errors"].append({"behaviour": "foreign %d" % bi, "what": "harness exception: " + traceback.format_exc()[-700:]})
            continue
        out["foreign_n"] += 1
        out["foreign"] += bad
    if background is not None:
        background.stop()


def main():
    data = json.load(open(sys.argv[1]))
    out = {"n": 0, "observations": 0, "mismatches": [], "gt_errors": [], "pingpong": [], "pingpong_n": 0}
    for bi, beh in enumerate(data["behaviours"]):
        try:
            bad = trio.run(run_behaviour, beh, out)
        except GroundTruth as ex:
            out["gt_errors"].append({"behaviour": bi, "what": str(ex)})
            continue
        except BaseException as ex:
            import traceback
            out["gt_errors"].append({"behaviour": bi, "what": "harness exception: " + traceback.format_exc()[-700:]})
            continue
        out["n"] += 1
        out["mismatches"] += bad
    out["pingpong_n"] = run_pingpong(out["pingpong"], data["pingpong"])
    main_foreign(data, out)
    json.dump(out, open(sys.argv[2], "w"))


if __name__ == "__main__":
    main()
