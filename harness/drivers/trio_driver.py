"""Replay driver for C14 (TaskTree): command-interpreting Trio tasks grow the task tree action by action along
TLC's behaviours; at every observation extract(root, recurse_child_tasks=True) is compared with the tree the
specification holds (and the spec's tree with Trio's own child_nurseries / child_tasks: ground truth).
Plus to_thread / from_thread ping-pong chains.  Needs trio (project venv, 3.12).
usage: trio_driver.py <behaviours.json> <out.json>"""
import json
import sys
import warnings

import trio
import trio.testing

try:
    import greenback
except ImportError:          # pragma: no cover
    greenback = None

import stackscope


class GroundTruth(Exception):
    pass


class W:
    def __init__(self):
        self.cmd = {}        # task id -> (send, recv) memory channel
        self.tasks = {}      # task id -> trio task
        self.nobj = {}       # nursery id -> trio.Nursery
        self.nstack = {}     # task id -> [nursery ids]
        self.never = False
        self.gb = {}         # task id -> True once the task has a greenback portal

    def chan(self, tid):
        if tid not in self.cmd:
            self.cmd[tid] = trio.open_memory_channel(10)
        return self.cmd[tid]


async def worker(w, tid):
    w.tasks[tid] = trio.lowlevel.current_task()
    w.nstack[tid] = []
    await interp(w, tid)


def sync_receive(w, tid):
    """a portalized task waits for its next command in a synchronous function, through the await_ bridge"""
    return greenback.await_(w.chan(tid)[1].receive())


async def interp(w, tid):
    while True:
        if w.gb.get(tid):
            cmd = sync_receive(w, tid)
        else:
            cmd = await w.chan(tid)[1].receive()
        a = cmd["a"]
        if a == "ensure":
            await greenback.ensure_portal()
            w.gb[tid] = True
        elif a == "open":
            await OPENERS[cmd["e"]](w, tid, cmd["x"])
        elif a == "spawn":
            w.nobj[w.nstack[tid][-1]].start_soon(worker, w, cmd["x"])
        elif a in ("leave", "finish"):
            return


def push(w, tid, nid, n):
    w.nobj[nid] = n
    w.nstack[tid].append(nid)


async def open_plain(w, tid, nid):
    async with trio.open_nursery() as n:
        push(w, tid, nid, n)
        await interp(w, tid)
    w.nstack[tid].pop()


async def open_tryexc(w, tid, nid):
    async with trio.open_nursery() as n:
        push(w, tid, nid, n)
        try:
            await interp(w, tid)
        except KeyError:
            pass
    w.nstack[tid].pop()


async def open_tryfin(w, tid, nid):
    async with trio.open_nursery() as n:
        push(w, tid, nid, n)
        try:
            await interp(w, tid)
        finally:
            w.never = False
    w.nstack[tid].pop()


async def open_condret(w, tid, nid):
    async with trio.open_nursery() as n:
        push(w, tid, nid, n)
        await interp(w, tid)
        if w.never:
            return
    w.nstack[tid].pop()


OPENERS = {"plain": open_plain, "tryexc": open_tryexc, "tryfin": open_tryfin, "condret": open_condret}


def check_ground_truth(w, tree):
    """the spec's tree must be Trio's tree (else the MODEL is wrong)"""
    t = w.tasks[tree["task"]]
    real = list(t.child_nurseries)
    if [id(n) for n in real] != [id(w.nobj[x["id"]]) for x in tree["nurseries"]]:
        raise GroundTruth("task %d: Trio has %d open nurseries, spec %d" % (tree["task"], len(real), len(tree["nurseries"])))
    for n, x in zip(real, tree["nurseries"]):
        kids = {id(c) for c in n.child_tasks}
        if kids != {id(w.tasks[k["task"]]) for k in x["kids"]}:
            raise GroundTruth("nursery %d: children differ" % x["id"])
        for k in x["kids"]:
            check_ground_truth(w, k)


def compare(w, st, tree, bad, where):
    if st.error is not None:
        bad.append("%s: error %r" % (where, st.error))
    if st.root is not w.tasks[tree["task"]]:
        bad.append("%s: root is not the task" % where)
    if not st.frames:
        bad.append("%s: no frames (stub?)" % where)
        return
    ctxs = [(f, c) for f in st.frames for c in f.contexts if isinstance(c.obj, trio.Nursery)]
    want = tree["nurseries"]
    if [id(c.obj) for _, c in ctxs] != [id(w.nobj[x["id"]]) for x in want]:
        have = []
        for _, c in ctxs:
            have.append(next((nid for nid, n in w.nobj.items() if n is c.obj), "?"))
        bad.append("%s: nurseries %s, expected %s (endings %s)" % (where, have, [x["id"] for x in want], [x["ending"] for x in want]))
        return
    for idx, ((f, c), x) in enumerate(zip(ctxs, want)):
        last = idx == len(want) - 1
        exiting = last and tree["where"] == "aexit"
        if bool(c.is_exiting) != exiting:
            bad.append("%s: nursery %d is_exiting %s, expected %s" % (where, x["id"], c.is_exiting, exiting))
        kids = [k for k in c.children]
        if any(not isinstance(k, stackscope.Stack) for k in kids):
            bad.append("%s: nursery %d has non-Stack children" % (where, x["id"]))
            continue
        if {id(k.root) for k in kids} != {id(w.tasks[y["task"]]) for y in x["kids"]} or len(kids) != len(x["kids"]):
            bad.append("%s: nursery %d children %d, expected tasks %s" % (where, x["id"], len(kids), [y["task"] for y in x["kids"]]))
            continue
        for y in x["kids"]:
            k = next(k for k in kids if k.root is w.tasks[y["task"]])
            compare(w, k, y, bad, "%s/n%d/t%d" % (where, x["id"], y["task"]))


async def run_behaviour(beh, out):
    w = W()
    bad = []
    async with trio.open_nursery() as top:
        top.start_soon(worker, w, 1)
        await trio.testing.wait_all_tasks_blocked()
        for k, a in enumerate(beh["acts"]):
            if a["a"] == "observe":
                check_ground_truth(w, a["tree"])
                with warnings.catch_warnings(record=True) as wl:
                    warnings.simplefilter("always")
                    st = stackscope.extract(w.tasks[1], recurse_child_tasks=True)
                out["observations"] += 1
                b = []
                compare(w, st, a["tree"], b, "t1")
                for x in wl:
                    if issubclass(x.category, RuntimeWarning):
                        b.append("warning: %s" % str(x.message)[:160])
                if b:
                    bad.append({"step": k, "bad": b[:4], "tree": a["tree"], "acts": beh["acts"][:k + 1]})
                    break
            else:
                await w.chan(a["t"])[0].send(a)
                await trio.testing.wait_all_tasks_blocked()
        top.cancel_scope.cancel()
    return bad


async def pingpong(d, where):
    results = []

    async def t_level(k):
        if k > 0:
            return await trio.to_thread.run_sync(s_level, k)
        task_root = ROOT["task"]
        if where == "inside":
            results.append(stackscope.extract(task_root))
            return
        await trio.sleep_forever()

    def s_level(k):
        return trio.from_thread.run(t_level, k - 1)

    ROOT = {}

    async def root():
        ROOT["task"] = trio.lowlevel.current_task()
        await t_level(d)

    async with trio.open_nursery() as n:
        n.start_soon(root)
        await trio.testing.wait_all_tasks_blocked(0.05)
        if where == "outside":
            results.append(stackscope.extract(ROOT["task"]))
        n.cancel_scope.cancel()
    return results


def run_pingpong(bad, want_by_d):
    n = 0
    for d, want in enumerate(want_by_d):
        for where in ("outside", "inside"):
            with warnings.catch_warnings(record=True) as wl:
                warnings.simplefilter("always")
                try:
                    results = trio.run(pingpong, d, where)
                except BaseException as ex:
                    bad.append("pingpong d=%d %s: harness exception %r" % (d, where, ex))
                    continue
            n += 1
            if len(results) != 1:
                bad.append("pingpong d=%d %s: %d results" % (d, where, len(results)))
                continue
            st = results[0]
            seq = [[("t" if f.funcname == "t_level" else "s"), f.pyframe.f_locals.get("k")] for f in st.frames if f.funcname in ("t_level", "s_level")]
            if seq != [list(x) for x in want]:
                bad.append("pingpong d=%d %s: frames %s expected %s" % (d, where, seq, want))
            if st.error is not None:
                bad.append("pingpong d=%d %s: error %r" % (d, where, st.error))
            if any(f.hide for f in st.frames if f.funcname in ("t_level", "s_level")):
                bad.append("pingpong d=%d %s: a user frame is hidden" % (d, where))
            if [x for x in wl if issubclass(x.category, stackscope.InspectionWarning)]:
                bad.append("pingpong d=%d %s: InspectionWarning" % (d, where))
    return n


def main():
    data = json.load(open(sys.argv[1]))
    out = {"n": 0, "observations": 0, "mismatches": [], "gt_errors": [], "pingpong": [], "pingpong_n": 0}
    for bi, beh in enumerate(data["behaviours"]):
        try:
            bad = trio.run(run_behaviour, beh, out)
        except GroundTruth as ex:
            out["gt_errors"].append({"behaviour": bi, "what": str(ex)})
            continue
        except BaseException as ex:
            import traceback
            out["gt_errors"].append({"behaviour": bi, "what": "harness exception: " + traceback.format_exc()[-700:]})
            continue
        out["n"] += 1
        out["mismatches"] += bad
    out["pingpong_n"] = run_pingpong(out["pingpong"], data["pingpong"])
    json.dump(out, open(sys.argv[2], "w"))


if __name__ == "__main__":
    main()
