"""Replay driver for Trickery.tla (C20 mode switch): each specification thread is a real thread; the steps (set, the
lock-free check, the lock acquisition, the re-check / self-test under the lock) are carried out one at a time in the
order TLC chose, the threads being held at the lock's entry and inside it by a gate wrapped around the lock; an extraction's implementation is identified from its result
(trickery fills start_line, the referents fallback cannot).  stdlib-only.
usage: trickery_driver.py <behaviours.json> <out.json>"""
import json
import os
import queue
import sys
import threading
import warnings

import stackscope
from stackscope import lowlevel


class CM:
    def __enter__(self):
        return self

    def __exit__(self, *a):
        return False


def target(box):
    # a manager written in Python and two implemented in C (their __exit__ is a builtin method)
    lock = threading.Lock()          # its own: extractions of two threads overlap
    with CM() as m, lock as lk, open(os.devnull) as fh:  # noqa: F841
        box.extend([m, lock, fh])
        yield 1


class GateLock:
    """stands in for the module's _trickery_lock: the same lock, but a thread whose gate is armed reports that it is about
    to acquire it ("want") and that it has acquired it ("in"), and waits for the driver's go each time"""

    def __init__(self, real):
        self.real = real
        self.gates = {}

    def __enter__(self):
        w = self.gates.get(threading.get_ident())
        if w is not None and w.armed:
            w.r.put(("gate", "want"))
            w.go.get()
        self.real.acquire()
        if w is not None and w.armed:
            w.armed = False                     # one acquisition per extraction is scheduled
            w.r.put(("gate", "in"))
            w.go.get()
        return True

    def __exit__(self, *a):
        self.real.release()

    def acquire(self, *a, **kw):
        return self.real.acquire(*a, **kw)

    def release(self):
        return self.real.release()

    def locked(self):
        return self.real.locked()


class Worker:
    def __init__(self, name, gate):
        self.q, self.r, self.go = queue.Queue(), queue.Queue(), queue.Queue()
        self.armed = False
        self.stage = "idle"
        self.gate = gate
        self.t = threading.Thread(target=self.run, name=name, daemon=True)
        self.t.start()

    def run(self):
        self.gate.gates[threading.get_ident()] = self
        while True:
            op = self.q.get()
            if op is None:
                return
            if op["a"] == "set":
                lowlevel.set_trickery_enabled({"none": None, "on": True, "off": False}[op["v"]])
                self.r.put(("done", "-"))
            else:
                box = []
                g = target(box)
                next(g)
                self.armed = True
                with warnings.catch_warnings(record=True) as wl:
                    warnings.simplefilter("always")
                    st = stackscope.extract(g)
                self.armed = False
                ctxs = st.frames[0].contexts
                used = "?"
                if len(ctxs) >= 1 and ctxs[0].obj is box[0]:
                    used = "on" if ctxs[0].start_line is not None and ctxs[0].varname == "m" else "off"
                # in EITHER mode every truly active manager is there, in order, Python or C
                if [c.obj for c in ctxs] != box or any(c.is_async or c.is_exiting for c in ctxs):
                    used += " managers %s (active: CM, lock, TextIOWrapper)" % [type(c.obj).__name__ for c in ctxs]
                if [w for w in wl if issubclass(w.category, RuntimeWarning)]:
                    used += "+warning"
                g.close()
                self.r.put(("done", used))


def step(w, op):
    """carry out one specification step on worker w; returns what the real thread did"""
    a = op["a"]
    if a in ("set", "extract", "begin"):
        w.q.put(op)
    else:                       # acquire / finish: let the thread held at the gate go on
        w.go.put(True)
    got = w.r.get(timeout=20)
    if got[0] == "gate":
        w.stage = got[1]
        return {"want": "begin", "in": "acquire"}[got[1]], "-"
    was = w.stage
    w.stage = "idle"
    if a == "set":
        return "set", "-"
    return ("finish" if was == "in" else "extract"), got[1]


def main():
    data = json.load(open(sys.argv[1]))
    out = {"n": 0, "steps": 0, "mismatches": []}
    import stackscope._lowlevel as ll
    real = getattr(ll, "_trickery_lock", None)
    if real is None or not hasattr(real, "acquire"):
        raise SystemExit("harness: stackscope._lowlevel has no _trickery_lock to put the scheduling gate around")
    gate = GateLock(real)
    ll._trickery_lock = gate
    workers = {}
    try:
        for beh in data["behaviours"]:
            lowlevel.set_trickery_enabled(None)
            for k, op in enumerate(beh["acts"]):
                if op["t"] not in workers:
                    workers[op["t"]] = Worker(op["t"], gate)
                w = workers[op["t"]]
                try:
                    did, used = step(w, op)
                except queue.Empty:
                    raise SystemExit("harness: no answer from thread %s at step %d of %s" % (op["t"], k, beh["acts"]))
                out["steps"] += 1
                # a thread that finds a setting in place finishes at once ("extract"); one that does not stops at the lock
                if did != op["a"] and {did, op["a"]} == {"extract", "begin"}:
                    out["mismatches"].append({"acts": beh["acts"][:k + 1], "bad": "step %d: spec says the lock-free check %s, the real thread %s" % (
                        k, "found no setting" if op["a"] == "begin" else "found a setting", "finished at once" if did == "extract" else "went for the lock")})
                    break
                if did != op["a"]:
                    raise SystemExit("harness: step %s carried out as %s" % (op, did))
                if used != op["used"]:
                    out["mismatches"].append({"acts": beh["acts"][:k + 1], "bad": "step %d: spec says implementation %s was used, real %s" % (k, op["used"], used)})
                    break
            # let every extraction still under way run to its end
            while any(w.stage != "idle" for w in workers.values()):
                pending = sorted((w for w in workers.values() if w.stage != "idle"), key=lambda w: w.stage != "in")
                step(pending[0], {"a": "finish"})      # the holder of the lock first
            out["n"] += 1
    finally:
        ll._trickery_lock = real
    lowlevel.set_trickery_enabled(None)
    for w in workers.values():
        w.q.put(None)
    json.dump(out, open(sys.argv[2], "w"))


if __name__ == "__main__":
    main()
