"""Replay driver for Trickery.tla (C20 mode switch): each specification thread is a real thread; operations are
executed one at a time in the order TLC chose; an extraction's implementation is identified from its result
(trickery fills start_line, the referents fallback cannot).  stdlib-only.
usage: trickery_driver.py <behaviours.json> <out.json>"""
import json
import os
import queue
import sys
import threading
import warnings

import stackscope
from stackscope import lowlevel


class CM:
    def __enter__(self):
        return self

    def __exit__(self, *a):
        return False


LOCK = threading.Lock()


def target(box):
    # a manager written in Python and two implemented in C (their __exit__ is a builtin method)
    with CM() as m, LOCK as lk, open(os.devnull) as fh:  # noqa: F841
        box.extend([m, LOCK, fh])
        yield 1


class Worker:
    def __init__(self, name):
        self.q, self.r = queue.Queue(), queue.Queue()
        self.t = threading.Thread(target=self.run, name=name, daemon=True)
        self.t.start()

    def run(self):
        while True:
            op = self.q.get()
            if op is None:
                return
            if op["a"] == "set":
                lowlevel.set_trickery_enabled({"none": None, "on": True, "off": False}[op["v"]])
                self.r.put("-")
            else:
                box = []
                g = target(box)
                next(g)
                with warnings.catch_warnings(record=True) as wl:
                    warnings.simplefilter("always")
                    st = stackscope.extract(g)
                ctxs = st.frames[0].contexts
                used = "?"
                if len(ctxs) >= 1 and ctxs[0].obj is box[0]:
                    used = "on" if ctxs[0].start_line is not None and ctxs[0].varname == "m" else "off"
                # in EITHER mode every truly active manager is there, in order, Python or C
                if [c.obj for c in ctxs] != box or any(c.is_async or c.is_exiting for c in ctxs):
                    used += " managers %s (active: CM, lock, TextIOWrapper)" % [type(c.obj).__name__ for c in ctxs]
                if [w for w in wl if issubclass(w.category, RuntimeWarning)]:
                    used += "+warning"
                g.close()
                self.r.put(used)


def main():
    data = json.load(open(sys.argv[1]))
    out = {"n": 0, "mismatches": []}
    workers = {}
    for beh in data["behaviours"]:
        lowlevel.set_trickery_enabled(None)
        for k, op in enumerate(beh["acts"]):
            if op["t"] not in workers:
                workers[op["t"]] = Worker(op["t"])
            w = workers[op["t"]]
            w.q.put(op)
            got = w.r.get(timeout=20)
            if got != op["used"]:
                out["mismatches"].append({"acts": beh["acts"][:k + 1], "bad": "step %d: spec says implementation %s was used, real %s" % (k, op["used"], got)})
                break
        out["n"] += 1
    lowlevel.set_trickery_enabled(None)
    for w in workers.values():
        w.q.put(None)
    json.dump(out, open(sys.argv[2], "w"))


if __name__ == "__main__":
    main()
