"""Replay driver for M10 (Format / Summary, C18 + C19): builds real Stack objects for the given abstract trees
(real frames from a pool of suspended generators in a real module file), renders them with every option set and
compares line by line with the specification's Fmt (prefix markers + payload), and the stdlib summary with
Entries.  stdlib-only.   usage: format_driver.py <cases.json> <out.json> <pool_module_path>"""
import gc
import importlib.util
import contextlib
import io
import json
import pickle
import re
import sys
import traceback
import types

import stackscope
from stackscope import Context, Frame, Stack

UNI = {"SF": "╠ ", "CF": "║ ", "LEAF": "╚ ", "SC": "├ ", "CC": "│ ", "SCC": "├─",
       "SCH": "─ ", "COD": "└ ", "CCH": "  ", "ERR": "  "}
ASC = {"SF": "+ ", "CF": "| ", "LEAF": "+ ", "SC": ". ", "CC": "  ", "SCC": "  ", "SCH": ". ", "COD": "` ", "CCH": "  ", "ERR": "  "}
NPOOL = 40
BOX = set("".join(UNI.values()))


def write_pool(path):
    lines = ["# frame pool for the /verif format driver"]
    for i in range(1, NPOOL + 1):
        lines.append("def f_%d(x=%d):" % (i, i))
        lines.append("    yield %d" % i)
    for i in range(1, NPOOL + 1):
        lines.append("WITH_LINE_%d = 'a with statement would be here'" % i)
    open(path, "w").write("\n".join(lines) + "\n")


class Mgr:
    """managers and leaves are FALSY objects: presence must be decided by `is not None`, never by truthiness"""

    def __init__(self, i):
        self.i = i

    def __bool__(self):
        return False

    def __repr__(self):
        # every third manager has a name outside ASCII: ascii_only is about the MARKERS, the text stays what it is
        return ("<Mgr \u2116%d \u00fcber>" if self.i % 3 == 0 else "<Mgr %d>") % self.i


class Root:
    def __init__(self, i):
        self.i = i

    def __len__(self):
        return 0

    def __repr__(self):
        return "<Root %d>" % self.i


class Builder:
    def __init__(self, pool):
        self.pool = pool
        self.gens = {}
        self.nroot = 0
        self.with_line0 = 1 + 2 * NPOOL

    def frame(self, f):
        i = f["id"]
        if i not in self.gens:
            g = getattr(self.pool, "f_%d" % i)()
            next(g)
            self.gens[i] = g
        fr = Frame(pyframe=self.gens[i].gi_frame, hide=f["hide"], hide_line=not f["line"])
        fr.contexts = [self.ctx(c) for c in f["ctxs"]]
        return fr

    def ctx(self, c):
        i = c["id"]
        kids = []
        for ch in c["children"]:
            kids.append(self.stack(ch["st"]) if ch["t"] == "stack" else self.ctx(ch["ctx"]))
        return Context(obj=Mgr(i), is_async=(i % 2 == 0), is_exiting=c["exiting"], varname="c%d" % i,
                       start_line=(self.with_line0 + i) if c["sl"] else None, description="ctx%d(...)" % i,
                       inner_stack=self.stack(c["inner"]) if c["inner"]["t"] == "stack" else None, children=kids, hide=c["hide"])

    def stack(self, s):
        self.nroot += 1
        err = None
        if s["error"]:
            err = ValueError("\n".join("error-line-%d" % k for k in range(1, s["error"] + 1)))
        return Stack(root=Root(self.nroot) if s["root"] else None, frames=[self.frame(f) for f in s["frames"]],
                     leaf=Mgr(0) if s["leaf"] else None, error=err)


def payload_ok(p, text):
    k = p[0]
    if k == "hdr":
        return text.startswith("stackscope.Stack")
    if k == "frame":
        return text.startswith("f_%d in " % p[1])
    if k == "code":
        return text == "yield %d" % p[1]
    if k == "ctx":
        return re.search(r"\bc%d: Mgr\b" % p[1], text) is not None
    if k == "leaf":
        return text == repr(Mgr(0))
    if k == "errhdr":
        return text == "Error while extracting stack:"
    if k == "err":
        return text == ("ValueError: error-line-1" if p[1] == 1 else "error-line-%d" % p[1])
    if k == "childroot":
        return text.startswith("<Root ") or text == "<unidentified child>"
    if k == "blank":
        return text == ""
    return False


def compare_lines(real, exp, table, bad, tag):
    if len(real) != len(exp):
        bad.append("%s: %d lines, spec %d\nreal: %r\nspec: %s" % (tag, len(real), len(exp), real[:12], [(l["m"], l["p"]) for l in exp][:12]))
        return
    for i, (r, e) in enumerate(zip(real, exp)):
        if not r.endswith("\n") or "\n" in r[:-1]:
            bad.append("%s: line %d is not a single newline-terminated line: %r" % (tag, i, r))
            return
        prefix = "".join(table[t] for t in e["m"])
        body = r[:-1]
        if e["p"][0] == "blank":
            # a blank separator: markers only (trailing whitespace of the markers is part of the line)
            if not (body == prefix or body.rstrip() == prefix.rstrip()):
                bad.append("%s: line %d: %r, spec blank with markers %s" % (tag, i, r, e["m"]))
                return
            continue
        if not body.startswith(prefix) or not payload_ok(e["p"], body[len(prefix):]):
            bad.append("%s: line %d: %r, spec markers %s payload %s" % (tag, i, r, e["m"], e["p"]))
            return


def same_text(uni, asc, exp, bad):
    """ascii_only is the SAME text with each prefix marker replaced: after its markers every line reads alike"""
    if len(uni) != len(exp) or len(asc) != len(exp):
        return
    for i, (u, a, e) in enumerate(zip(uni, asc, exp)):
        if e["p"][0] == "blank":
            continue
        pu = "".join(UNI[t] for t in e["m"])
        pa = "".join(ASC[t] for t in e["m"])
        if u[len(pu):] != a[len(pa):]:
            bad.append("line %d: after the markers the ascii_only line reads %r, the default one %r" % (i, a[len(pa):], u[len(pu):]))
            return


def check_summary(st, case, sc, sh, bad, builder):
    tag = "summary(ctx=%s,hidden=%s)" % (sc, sh)
    for capture in (False, True):
        try:
            summ = st.as_stdlib_summary(show_contexts=sc, show_hidden_frames=sh, capture_locals=capture)
        except BaseException as ex:
            bad.append("%s: raised %r" % (tag, ex))
            return
        ents = list(summ)
        exp = case["entries"]
        # the summary does not depend on interpreter-wide display settings of the application (sys.tracebacklimit)
        for lim in (1, 0):
            sys.tracebacklimit = lim
            try:
                again = list(st.as_stdlib_summary(show_contexts=sc, show_hidden_frames=sh, capture_locals=capture))
                flat_lim = st.format_flat(show_contexts=sc) if sh is False else None
            finally:
                del sys.tracebacklimit
            if [(e.filename, e.lineno, e.name) for e in again] != [(e.filename, e.lineno, e.name) for e in ents]:
                bad.append("%s: with sys.tracebacklimit = %d the summary has %d entries instead of %d" % (tag, lim, len(again), len(ents)))
                return
            if flat_lim is not None and flat_lim != st.format_flat(show_contexts=sc):
                bad.append("%s: with sys.tracebacklimit = %d format_flat() changes" % (tag, lim))
                return
        if len(ents) != len(exp):
            bad.append("%s: %d entries, spec %d (%s)" % (tag, len(ents), len(exp), exp[:8]))
            return
        for e, x in zip(ents, exp):
            if x[0] == "frame":
                g = builder.gens[x[1]]
                ok = e.name == "f_%d" % x[1] and e.lineno == g.gi_frame.f_lineno and e.filename == g.gi_frame.f_code.co_filename
            else:
                fid = x[2]
                g = builder.gens[fid]
                want_line = (builder.with_line0 + x[1]) if x[3] else g.gi_frame.f_lineno
                ok = e.name.startswith("f_%d (" % fid) and ("c%d: Mgr" % x[1]) in e.name and e.lineno == want_line \
                    and e.filename == g.gi_frame.f_code.co_filename
                if capture and ok:
                    ok = bool(e.locals) and "<context manager>" in e.locals
            if not ok:
                bad.append("%s: entry %s:%s %r does not match spec entry %s" % (tag, e.filename.split("/")[-1], e.lineno, e.name, x))
                return
        if capture and any(e.locals is None for e in ents):
            bad.append("%s: capture_locals not propagated to every entry" % tag)
        # picklable, holds no frame
        try:
            back = pickle.loads(pickle.dumps(summ))
            if [(a.filename, a.lineno, a.name) for a in back] != [(a.filename, a.lineno, a.name) for a in summ]:
                bad.append("%s: pickle round trip differs" % tag)
        except BaseException as ex:
            bad.append("%s: not picklable: %r" % (tag, ex))
        seen, todo = set(), [summ]
        while todo:
            o = todo.pop()
            if id(o) in seen:
                continue
            seen.add(id(o))
            if isinstance(o, types.FrameType):
                bad.append("%s: a frame object is reachable from the summary" % tag)
                return
            if isinstance(o, (types.ModuleType, type, types.FunctionType)):
                continue
            if len(seen) > 20000:
                break
            todo.extend(gc.get_referents(o))
    # format_flat = header + standard rendering of that summary + leaf + error lines
    if sh is False:
        flat = st.format_flat(show_contexts=sc)
        want = [st._format_header()] if False else None
        summ = st.as_stdlib_summary(show_contexts=sc)
        expect = [flat[0]] + (list(summ.format()) if st.frames else [])
        if st.leaf is not None:
            expect.append("  Target of innermost frame: %r\n" % (st.leaf,))
        rest = flat[len(expect):]
        if flat[:len(expect)] != expect or not flat[0].startswith("stackscope.Stack"):
            bad.append("%s: format_flat is not header + StackSummary.format() + leaf" % tag)
        elif st.error is not None:
            if not rest or rest[0] != "  Error while extracting stack:\n":
                bad.append("%s: format_flat error block missing" % tag)
        elif rest:
            bad.append("%s: format_flat has extra lines" % tag)


@contextlib.contextmanager
def ambient_stdout(i):
    """str(x) is a function of x alone: evaluate it under the kinds of sys.stdout that programs run with"""
    kinds = ["the process's own", "an io.StringIO (encoding None)", "a latin-1 text stream", "None", "an ascii text stream"]
    k = i % len(kinds)
    saved = sys.stdout
    try:
        if k == 1:
            sys.stdout = io.StringIO()
        elif k == 2:
            sys.stdout = io.TextIOWrapper(io.BytesIO(), encoding="latin-1")
        elif k == 3:
            sys.stdout = None
        elif k == 4:
            sys.stdout = io.TextIOWrapper(io.BytesIO(), encoding="ascii")
        yield kinds[k]
    finally:
        sys.stdout = saved


def main():
    data = json.load(open(sys.argv[1]))
    pool_path = sys.argv[3]
    spec = importlib.util.spec_from_file_location("verif_fmt_pool", pool_path)
    pool = importlib.util.module_from_spec(spec)
    sys.modules["verif_fmt_pool"] = pool
    spec.loader.exec_module(pool)
    out = {"n": 0, "lines_compared": 0, "mismatches18": [], "mismatches19": []}
    for case in data["cases"]:
        b = Builder(pool)
        try:
            st = b.stack(case["tree"])
        except BaseException:
            out["mismatches18"].append({"tid": case["tid"], "bad": ["harness: " + traceback.format_exc()[-400:]]})
            continue
        sc, sh = case["ctx"], case["hidden"]
        bad18, bad19 = [], []
        try:
            uni = st.format(show_contexts=sc, show_hidden_frames=sh)
            asc = st.format(ascii_only=True, show_contexts=sc, show_hidden_frames=sh)
        except BaseException as ex:
            bad18.append("format raised %r" % (ex,))
            uni = asc = None
        if uni is not None:
            compare_lines(uni, case["lines"], UNI, bad18, "format(unicode)")
            compare_lines(asc, case["lines"], ASC, bad18, "format(ascii_only)")
            if not bad18:
                same_text(uni, asc, case["lines"], bad18)
            out["lines_compared"] += 2 * len(case["lines"])
            if any(ord(ch) > 127 for ln in asc for ch in ln) and not any(ord(ch) > 127 and ch not in BOX for ln in uni for ch in ln):
                bad18.append("ascii_only output contains non-ASCII characters although names, source and reprs are ASCII")
            if sc and not sh:
                with ambient_stdout(out["n"]) as kind:
                    text = str(st)
                    parts = [(f, str(f), "".join(f.format())) for f in st.frames[:2]]
                    parts += [(c, str(c), "".join(c.format())) for f in st.frames[:2] for c in f.contexts[:1]]
                if text != "".join(uni):
                    bad18.append("str(x) is not the concatenation of format() (sys.stdout is %s)" % kind)
                for obj, a, b2 in parts:
                    if a != b2:
                        bad18.append("str(x) of a %s is not the concatenation of its format() (sys.stdout is %s)" % (type(obj).__name__, kind))
                        break
        check_summary(st, case, sc, sh, bad19, b)
        out["n"] += 1
        if bad18:
            out["mismatches18"].append({"tid": case["tid"], "ctx": sc, "hidden": sh, "bad": bad18[:3], "tree": case["tree"]})
        if bad19:
            out["mismatches19"].append({"tid": case["tid"], "ctx": sc, "hidden": sh, "bad": bad19[:3], "tree": case["tree"]})
        for g in b.gens.values():
            g.close()
    json.dump(out, open(sys.argv[2], "w"))


if __name__ == "__main__":
    if len(sys.argv) == 3 and sys.argv[1] == "--write-pool":
        write_pool(sys.argv[2])
    else:
        main()
