"""Replay driver for C15 (Greenlets): command-interpreting greenlet bodies driven from the main greenlet along
TLC's behaviours; extract(target) is called by the observer the specification names and compared with the
target's own segment.  Plus: a greenlet running in another thread, and greenback await_ bridges under Trio.
Needs greenlet (and greenback + trio for the bridge part): 3.12 / the project venv only.
usage: greenlet_driver.py <behaviours.json> <out.json>"""
import functools
import json
import sys
import threading
import warnings

import greenlet
import stackscope


class World:
    made = 0

    def __init__(self, parents):
        self.main = greenlet.getcurrent()
        self.parents = parents
        self.g = {}
        self.result = None
        World.made += 1
        # create in an order in which every parent exists
        todo = dict(parents)
        while todo:
            for gid, p in list(todo.items()):
                if p == "main" or p in self.g:
                    parent = self.main if p == "main" else self.g[p]
                    if (len(self.g) + World.made) % 2:
                        # the subclassing style: run() is a method of the class, not an attribute of the instance
                        self.g[gid] = Sub(parent=parent)
                        self.g[gid].w, self.g[gid].gid = self, gid
                    else:
                        self.g[gid] = greenlet.greenlet(functools.partial(entry, self, gid), parent=parent)
                    del todo[gid]


def entry(w, gid=None):
    """the greenlet's entry function IS the depth-0 interpreter (so that extract can be called from call depth 1)"""
    if gid is None:
        w, gid = w.w, w.gid          # called as Sub.run
    while True:
        cmd = w.main.switch(("ready", gid, 0))
        if cmd[0] == "call":
            loop(w, gid, 1)
        elif cmd[0] == "return":
            return ("finished", gid)
        elif cmd[0] == "extract":
            with warnings.catch_warnings(record=True) as wl:
                warnings.simplefilter("always")
                st = stackscope.extract(w.g[cmd[1]])
            w.result = (st, [str(x.message)[:100] for x in wl])
        elif cmd[0] == "finished":
            continue


class Sub(greenlet.greenlet):
    run = entry


def loop(w, gid, depth):
    while True:
        cmd = w.main.switch(("ready", gid, depth))
        if cmd[0] == "call":
            loop(w, gid, depth + 1)
        elif cmd[0] == "return":
            return
        elif cmd[0] == "extract":
            with warnings.catch_warnings(record=True) as wl:
                warnings.simplefilter("always")
                st = stackscope.extract(w.g[cmd[1]])
            w.result = (st, [str(x.message)[:100] for x in wl])
        elif cmd[0] == "finished":
            continue


def summarize(res, target):
    st, wl = res
    names = [f.funcname for f in st.frames]
    owners = [f.pyframe.f_locals.get("gid") for f in st.frames]
    return {"names": names, "owners": owners, "error": None if st.error is None else repr(st.error)[:200], "warnings": wl,
            "root_ok": st.root is target, "leaf": None if st.leaf is None else repr(st.leaf)[:80]}


def is_descendant(parents, obs, target):
    x = obs
    for _ in range(10):
        if x == "main":
            return False
        x = parents[x]
        if x == target:
            return True
    return False


def run_behaviour(beh):
    w = World(beh["parent"])
    bad, f8 = [], []
    nobs = 0
    for k, a in enumerate(beh["acts"]):
        g = a["g"]
        if a["a"] == "start":
            r = w.g[g].switch()
        elif a["a"] == "call":
            r = w.g[g].switch(("call",))
        elif a["a"] in ("return", "finish"):
            r = w.g[g].switch(("return",))
        else:
            nobs += 1
            obs = a["h"]
            if obs == "main":
                with warnings.catch_warnings(record=True) as wl:
                    warnings.simplefilter("always")
                    st = stackscope.extract(w.g[g])
                res = (st, [str(x.message)[:100] for x in wl])
            else:
                w.result = None
                w.g[obs].switch(("extract", g))
                res = w.result
                if res is None:
                    bad.append({"step": k, "act": a, "what": "harness: observer did not extract"})
                    continue
            s = summarize(res, w.g[g])
            n = a["n"]
            want = ["entry"] + ["loop"] * (n - 1) if n else []
            ok = s["names"] == want and all(o == g for o in s["owners"]) and s["error"] is None and not s["warnings"] and s["root_ok"] and s["leaf"] is None
            if not ok:
                item = {"step": k, "act": a, "what": "extract(%s) from %s: frames %s owners %s error %s; expected %s of %s" % (g, obs, s["names"], s["owners"], s["error"], want, g), "acts": beh["acts"][:k + 1], "parent": beh["parent"]}
                # independent signature of F8: the observer is a proper descendant of the (suspended) target
                if n and obs != "main" and obs != g and is_descendant(beh["parent"], obs, g):
                    f8.append(item)
                else:
                    bad.append(item)
    # let everything die cleanly
    for gid, gl in w.g.items():
        try:
            if gl and not gl.dead:
                gl.throw(greenlet.GreenletExit)
        except BaseException:
            pass
    return bad, f8, nobs


def other_thread_cases(subclass=False):
    """a greenlet running in another thread: an error, not some other stack; a suspended one: its own frames"""
    bad = []
    box = {"subclass": subclass}
    ready, done = threading.Event(), threading.Event()

    def t2():
        def child():
            greenlet.getcurrent().parent.switch()

        def blocked():
            box["running"] = greenlet.getcurrent()
            ready.set()
            done.wait(10)
        susp = greenlet.greenlet(child)
        susp.switch()
        box["suspended"] = susp
        class Blocked(greenlet.greenlet):
            def run(self):
                blocked()
        run = Blocked() if box.get("subclass") else greenlet.greenlet(blocked)
        run.switch()
    th = threading.Thread(target=t2, daemon=True)
    th.start()
    ready.wait(10)
    try:
        with warnings.catch_warnings(record=True):
            warnings.simplefilter("always")
            st = stackscope.extract(box["running"])
        if st.frames or st.error is None:
            bad.append("greenlet running in another thread: frames %s error %r (expected an error and no frames)" % ([f.funcname for f in st.frames], st.error))
        with warnings.catch_warnings(record=True):
            warnings.simplefilter("always")
            st = stackscope.extract(box["suspended"])
        if [f.funcname for f in st.frames] != ["child"] or st.error is not None:
            bad.append("greenlet suspended in another thread: frames %s error %r" % ([f.funcname for f in st.frames], st.error))
    finally:
        done.set()
        th.join(5)
    # the MAIN (parent-less) greenlet of another thread, while that thread runs in it, and the same from inside a
    # non-main greenlet of this thread: an error in both cases, never the caller's own stack
    box2 = {}
    ready2, done2 = threading.Event(), threading.Event()

    def t3():
        box2["main"] = greenlet.getcurrent()
        ready2.set()
        done2.wait(10)
    th2 = threading.Thread(target=t3, daemon=True)
    th2.start()
    ready2.wait(10)
    try:
        def observe(where):
            with warnings.catch_warnings(record=True):
                warnings.simplefilter("always")
                st = stackscope.extract(box2["main"])
            if st.frames or st.error is None:
                bad.append("main greenlet of another thread, running (observed from %s): frames %s error %r (expected an error and no frames)"
                           % (where, [f.funcname for f in st.frames], st.error))
        observe("this thread's main greenlet")
        g = greenlet.greenlet(lambda: observe("a non-main greenlet of this thread"))
        g.switch()
    finally:
        done2.set()
        th2.join(5)
    # this thread's own main greenlet, extracted from a child greenlet: it is suspended, its frames are this thread's
    mine = greenlet.getcurrent()
    res = []

    def from_child():
        with warnings.catch_warnings(record=True):
            warnings.simplefilter("always")
            res.append(stackscope.extract(mine))
    greenlet.greenlet(from_child).switch()
    if not res or res[0].error is not None or not res[0].frames or res[0].frames[-1].funcname != "other_thread_cases":
        bad.append("own main greenlet seen from a child: frames %s error %r" % (
            [f.funcname for f in res[0].frames][-3:] if res else None, res[0].error if res else None))
    return bad


def greenback_cases(bridges):
    try:
        import greenback
        import trio
    except ImportError:
        return None, []
    bad = []
    n = 0
    for d, want in enumerate(bridges):
        for where in ("outside", "inside"):
            results = []

            async def a_level(k):
                if k > 0:
                    return s_level(k)
                task = trio.lowlevel.current_task()
                if where == "inside":
                    results.append(stackscope.extract(task.coro))
                    return

                def report():
                    results.append(stackscope.extract(task.coro))
                    trio.lowlevel.reschedule(task)
                trio.lowlevel.current_trio_token().run_sync_soon(report)
                await trio.lowlevel.wait_task_rescheduled(lambda _: trio.lowlevel.Abort.FAILED)

            def s_level(k):
                return greenback.await_(a_level(k - 1))

            async def main():
                await greenback.ensure_portal()
                await a_level(d)
            with warnings.catch_warnings(record=True) as wl:
                warnings.simplefilter("always")
                trio.run(main)
            n += 1
            if len(results) != 1:
                bad.append("greenback d=%d %s: %d results" % (d, where, len(results)))
                continue
            st = results[0]
            visible = [(("a" if f.funcname == "a_level" else "s"), f.pyframe.f_locals.get("k")) for f in st.frames
                       if f.funcname in ("a_level", "s_level")]
            if [list(x) for x in visible] != [list(x) for x in want]:
                bad.append("greenback d=%d %s: bridge frames %s expected %s" % (d, where, visible, want))
            if any(f.hide for f in st.frames if f.funcname in ("a_level", "s_level")):
                bad.append("greenback d=%d %s: a user frame is hidden" % (d, where))
            internals = [f for f in st.frames if (f.modname or "").startswith("greenback") and f.funcname in ("await_", "_greenback_shim", "trampoline")]
            if any(not f.hide for f in internals):
                bad.append("greenback d=%d %s: bridging internals not hidden: %s" % (d, where, [f.funcname for f in internals if not f.hide]))
            if st.error is not None:
                bad.append("greenback d=%d %s: error %r" % (d, where, st.error))
            if [str(x.message)[:80] for x in wl if issubclass(x.category, stackscope.InspectionWarning)]:
                bad.append("greenback d=%d %s: InspectionWarning" % (d, where))
    n2, bad2 = greenback_asyncio_cases(bridges)
    return n + n2, bad + bad2


def greenback_asyncio_cases(bridges):
    """the same bridges under asyncio, where a task is resumed by a VALUE or by an EXCEPTION thrown into it (cancellation):
    the bridge frame greenback leaves on each greenlet stack is outcome.Value.send or outcome.Error.send accordingly"""
    import asyncio
    import greenback
    bad, n = [], 0
    for d, want in enumerate(bridges):
        for thrown in (False, True):
            results = []

            async def a_level(k, thrown=thrown):
                if k > 0:
                    return s_level(k)
                if thrown:
                    # cancelled while waiting; the clean-up goes through synchronous code that waits once more: the
                    # frame that resumed THIS coroutine (outcome.Error.send, made by the bridge above) stays on the stack
                    fut = asyncio.get_running_loop().create_future()
                    asyncio.get_running_loop().call_soon(asyncio.current_task().cancel)
                    try:
                        await fut
                    except asyncio.CancelledError:
                        pass
                    return s_extra()
                return await final()

            def s_extra():
                return greenback.await_(final())

            async def final():
                fut = asyncio.get_running_loop().create_future()
                task = asyncio.current_task()

                def report():
                    try:
                        results.append(stackscope.extract(task.get_coro()))
                    finally:
                        fut.set_result(None)
                asyncio.get_running_loop().call_soon(report)
                await fut

            def s_level(k):
                return greenback.await_(a_level(k - 1))

            async def main():
                await greenback.ensure_portal()
                await a_level(d)
            with warnings.catch_warnings(record=True) as wl:
                warnings.simplefilter("always")
                try:
                    asyncio.run(main())
                except BaseException as ex:
                    bad.append("harness: asyncio scenario d=%d thrown=%s raised %r" % (d, thrown, ex))
                    continue
            n += 1
            label = "greenback under asyncio d=%d, last resumed by %s" % (d, "an exception" if thrown else "a value")
            if len(results) != 1:
                bad.append("harness: %s: %d results" % (label, len(results)))
                continue
            st = results[0]
            visible = [(("a" if f.funcname == "a_level" else "s"), f.pyframe.f_locals.get("k")) for f in st.frames
                       if f.funcname in ("a_level", "s_level")]
            if [list(x) for x in visible] != [list(x) for x in want]:
                bad.append("%s: bridge frames %s expected %s" % (label, visible, want))
            shown = [f.funcname for f in st.frames if not f.hide and ((f.modname or "").startswith("outcome") or (
                (f.modname or "").startswith("greenback") and f.funcname in ("await_", "_greenback_shim", "trampoline")))]
            if shown:
                bad.append("%s: bridging internals not hidden: %s" % (label, shown))
            if thrown and d > 0 and not any(type(f.pyframe.f_locals.get("self")).__name__ == "Error" for f in st.frames if f.funcname == "send"):
                bad.append("harness: %s: no Error.send frame on the stack" % label)
            if st.error is not None:
                bad.append("%s: error %r" % (label, st.error))
            if [x for x in wl if issubclass(x.category, stackscope.InspectionWarning)]:
                bad.append("%s: InspectionWarning" % label)
    return n, bad


def main():
    data = json.load(open(sys.argv[1]))
    out = {"n": 0, "observations": 0, "mismatches": [], "f8": [], "other_thread": [], "greenback_n": None, "greenback": []}
    for beh in data["behaviours"]:
        bad, f8, nobs = run_behaviour(beh)
        out["n"] += 1
        out["observations"] += nobs
        out["mismatches"] += bad
        out["f8"] += f8
    out["other_thread"] = other_thread_cases() + ["(subclass with a run method) " + b for b in other_thread_cases(True)]
    out["greenback_n"], out["greenback"] = greenback_cases(data["bridges"])
    json.dump(out, open(sys.argv[2], "w"))


if __name__ == "__main__":
    main()
