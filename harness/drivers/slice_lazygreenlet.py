"""C04 and import order: a running-stack extraction is made BEFORE the program ever touches greenlet, greenlet is
imported and used afterwards, and extract_since(None) from inside a non-main greenlet must still be the thread's frame
chain continued through the greenlet parents.   usage: slice_lazygreenlet.py <out.json>"""
import json
import sys

import stackscope

out = {"bad": [], "ran": False}


def first():
    return stackscope.extract_since(None)


st0 = first()
if not st0.frames or st0.frames[-1].funcname != "first" or st0.error is not None:
    out["bad"].append("before greenlet is imported: frames %s error %r" % ([f.funcname for f in st0.frames][-3:], st0.error))
try:
    import greenlet
except ImportError:
    greenlet = None
if greenlet is not None:
    res = {}

    def deepest():
        truth, f, g = [], sys._getframe(0), greenlet.getcurrent()
        while True:
            while f is not None:
                truth.append(f)
                f = f.f_back
            g = g.parent
            if g is None:
                break
            f = g.gr_frame
        truth.reverse()
        res["truth"] = truth
        res["since"] = stackscope.extract_since(None)
        res["slice"] = stackscope.extract(stackscope.StackSlice())
        res["limit"] = stackscope.extract(stackscope.StackSlice(limit=3))

    def body():
        deepest()

    def outer_body():
        greenlet.greenlet(body).switch()
    greenlet.greenlet(outer_body).switch()
    truth = res["truth"]
    for label, st, want in (("extract_since(None)", res["since"], truth), ("extract(StackSlice())", res["slice"], truth),
                            ("extract(StackSlice(limit=3))", res["limit"], truth[-3:])):
        got = [f.pyframe for f in st.frames]
        if got != want or st.error is not None:
            out["bad"].append("%s from a greenlet two levels down, greenlet imported after the first extraction: %d frames %s, the "
                              "thread has %d (error %r)" % (label, len(got), [f.f_code.co_name for f in got][-4:], len(want), st.error))
    out["ran"] = True
json.dump(out, open(sys.argv[1], "w"))
