"""Schedule-replay driver for M3 (Options): each specification thread is a real thread; its call tree of
extract / extract_outermost / extract_child / fill_context invocations is grown from inside real customization
hooks (registered on synthetic types), one action at a time, in the interleaving TLC chose.  After every action
the observable result is compared with the specification's.  stdlib-only; needs no probe in /repo.

usage: options_driver.py <behaviours.json> <out.json>"""
import contextlib
import json
import queue
import sys
import threading
import warnings

import stackscope
from stackscope import Context

TIMEOUT = 10.0


class Node:
    """synthetic stack item: its unwrap hook runs the next commands of the owning thread"""


class NodeMgr:
    """synthetic context manager object: its elaborate_context hook runs the next commands"""

    def __enter__(self):
        return self

    def __exit__(self, *a):
        return False


class ProbeCM:
    def __enter__(self):
        return self

    def __exit__(self, *a):
        return False


def _probe_gen():
    with ProbeCM():
        yield 1


class Worker:
    def __init__(self, name):
        self.name = name
        self.cmds = queue.Queue()
        self.reports = queue.Queue()
        self.thread = threading.Thread(target=self.main, name=name, daemon=True)
        self.pg = _probe_gen()
        next(self.pg)
        self.hook_count = 0

    # ---- the command loop, run at depth 0 by the thread itself and at depth d by hooks
    def loop(self, depth):
        while True:
            cmd = self.cmds.get()
            a = cmd["a"]
            if a == "stop":
                return "stop"
            if a == "return":
                return "return"
            if a in ("extract", "outermost"):
                fn = stackscope.extract if a == "extract" else stackscope.extract_outermost
                try:
                    fn(Node(), with_contexts=cmd["wc"], recurse_child_tasks=cmd["rct"])
                    res = ["returned", a]
                except RuntimeError:
                    res = ["returned", a]      # extract_outermost on a frameless item ends by an exception
                self.reports.put(res)
            elif a == "child":
                n0 = self.hook_count
                try:
                    st = stackscope.extract_child(Node(), for_task=cmd["ft"])
                except RuntimeError as ex:
                    self.reports.put(["guard-error"])
                    continue
                if self.hook_count > n0:
                    self.reports.put(["returned", "child"])
                else:
                    ok = isinstance(st, stackscope.Stack) and not st.frames and isinstance(st.root, Node)
                    self.reports.put(["stub"] if ok else ["bad-stub", repr(st)])
            elif a == "fill":
                stackscope.fill_context(Context(obj=NodeMgr(), is_async=False))
                self.reports.put(["returned", "fill"])
            elif a == "observe":
                self.reports.put(self.observe())
            else:
                self.reports.put(["unknown", a])

    def observe(self):
        try:
            stub = stackscope.extract_child(self.pg, for_task=True)
        except RuntimeError:
            return ["obs", "guard-error"]
        try:
            full = stackscope.extract_child(self.pg, for_task=False)
        except RuntimeError:
            return ["obs", "stub-outside-any-extraction", "guard-error"]
        a = "stub" if not stub.frames and stub.root is self.pg else ("full" if stub.frames else "odd")
        b = "contexts" if full.frames and full.frames[0].contexts else "bare"
        if not full.frames:
            b = "noframes"
        return ["obs", a, b]

    def hook(self, kind):
        """a customization hook invoked by stackscope on this thread: report, then run nested commands"""
        self.hook_count += 1
        self.reports.put(["entered", kind])
        self.depth += 1
        r = self.loop(self.depth)
        self.depth -= 1
        if r == "stop":
            raise SystemExit
        return None

    def main(self):
        self.depth = 0
        with warnings.catch_warnings():
            warnings.simplefilter("ignore")
            try:
                self.loop(0)
            except SystemExit:
                raise
            except BaseException as ex:
                # never leave the controller waiting for a dead thread
                self.reports.put(["worker-died", repr(ex)[:300]])


WORKERS = {}
CURRENT_CALL = threading.local()


@stackscope.unwrap_stackitem.register(Node)
def _unwrap_node(node):
    w = WORKERS.get(threading.current_thread().name)
    if w is None:
        return None
    w.hook(w.pending_kind)
    return None


@stackscope.elaborate_context.register(NodeMgr)
def _elab_mgr(mgr, context):
    w = WORKERS.get(threading.current_thread().name)
    if w is not None:
        w.hook("fill")


def run_behaviour(beh, names):
    global WORKERS
    WORKERS = {n: Worker(n) for n in names}
    for w in WORKERS.values():
        w.pending_kind = None
        w.thread.start()
    bad = None
    try:
        for k, (act, exp) in enumerate(zip(beh["acts"], beh["outs"])):
            w = WORKERS[act["t"]]
            w.pending_kind = act["a"]
            w.cmds.put(act)
            try:
                got = w.reports.get(timeout=TIMEOUT)
            except queue.Empty:
                bad = {"step": k, "act": act, "diff": "thread %s did not respond" % act["t"]}
                break
            if act["a"] == "return":
                # the report of the enclosing call ("returned", kind) comes from the caller's loop
                pass
            if list(exp) != list(got):
                bad = {"step": k, "act": act, "diff": "spec %s real %s" % (list(exp), got), "acts": beh["acts"][:k + 1]}
                break
    finally:
        # unwind every worker
        for w in WORKERS.values():
            for _ in range(8):
                w.cmds.put({"a": "stop"})
        for w in WORKERS.values():
            w.thread.join(2.0)
    return bad


def frames_independent_of_options():
    """'with_contexts=False leaves every contexts empty without changing the frames': frame object, line, origin and
    flags of every frame are the same under all four option pairs (a two-level delegation, where origins matter)"""
    def inner():
        with contextlib.ExitStack():
            yield 1

    def outer():
        yield from inner()
    g = outer()
    next(g)
    sigs = {}
    for wc in (True, False):
        for rct in (True, False):
            st = stackscope.extract(g, with_contexts=wc, recurse_child_tasks=rct)
            sigs[(wc, rct)] = [(id(f.pyframe), f.lineno, id(f.origin), bool(f.hide), bool(f.hide_line)) for f in st.frames]
            if not wc and any(f.contexts for f in st.frames):
                return "with_contexts=False left contexts"
            if wc and not st.frames[-1].contexts:
                return "with_contexts=True found no contexts in the inner frame"
            if [f.origin for f in st.frames] != [g, g.gi_yieldfrom]:
                return "origins under with_contexts=%s recurse_child_tasks=%s are not the generators owning the frames" % (wc, rct)
    g.close()
    if len({json.dumps(v) for v in sigs.values()}) != 1:
        return "the frames (object, line, origin, flags) depend on the options: %s" % {str(k): v for k, v in sigs.items()}
    return None


def options_through_builtin_glue():
    """the options govern 'every hook, extract_child and fill_context invoked within' the call -- also those reached
    through stackscope's own glue: a child-hosting manager that sits inside a @contextmanager generator"""
    class Group:
        def __init__(self, kids):
            self.kids = kids

        def __bool__(self):
            return False

        def __enter__(self):
            return self

        def __exit__(self, *a):
            return False

    @stackscope.elaborate_context.register(Group)
    def _elab_group(mgr, context):
        context.children = [stackscope.extract_child(k, for_task=True) for k in mgr.kids]

    def kid():
        yield "kid"

    @contextlib.contextmanager
    def holder(kids):
        with Group(kids):
            yield

    def target(kids):
        with holder(kids):
            yield 1
    kids = [kid(), kid()]
    for k in kids:
        next(k)
    g = target(kids)
    next(g)
    try:
        for rct in (True, False):
            st = stackscope.extract(g, with_contexts=True, recurse_child_tasks=rct)
            try:
                inner = st.frames[0].contexts[0].inner_stack
                got = [len(c.frames) for c in inner.frames[0].contexts[0].children]
            except Exception as ex:
                return "a child-hosting manager inside a @contextmanager generator: cannot find its context (%r)" % (ex,)
            if got != ([1, 1] if rct else [0, 0]):
                return ("recurse_child_tasks=%s does not govern the child stacks of a manager inside a @contextmanager generator: "
                        "their frame counts are %s" % (rct, got))
            if st.error is not None:
                return "error %r" % (st.error,)
    finally:
        g.close()
        for k in kids:
            k.close()
    return None


def options_through_entry_points():
    """the options given to ANY entry point (extract, extract_since, extract_until with a count or a frame as limit) are the
    ones that govern the hooks run within it"""
    class Crowd:
        def __init__(self, kids):
            self.kids = kids

        def __enter__(self):
            return self

        def __exit__(self, *a):
            return False

    @stackscope.elaborate_context.register(Crowd)
    def _elab_crowd(mgr, context):
        context.children = [stackscope.extract_child(k, for_task=True) for k in mgr.kids]

    def kid():
        yield "kid"
    kids = [kid()]
    next(kids[0])
    box = {}

    def inner(call):
        box["inner"] = sys._getframe(0)
        return call()

    def outer(call):
        box["outer"] = sys._getframe(0)
        with Crowd(kids):
            return inner(call)
    entries = {
        "extract_since(frame)": lambda wc, rct: stackscope.extract_since(box["outer"], with_contexts=wc, recurse_child_tasks=rct),
        "extract_until(frame, limit=count)": lambda wc, rct: stackscope.extract_until(box["inner"], limit=2, with_contexts=wc, recurse_child_tasks=rct),
        "extract_until(frame, limit=frame)": lambda wc, rct: stackscope.extract_until(box["inner"], limit=box["outer"], with_contexts=wc, recurse_child_tasks=rct),
        "extract(StackSlice)": lambda wc, rct: stackscope.extract(stackscope.StackSlice(outer=box["outer"], inner=box["inner"]), with_contexts=wc, recurse_child_tasks=rct),
    }
    try:
        for name, entry in entries.items():
            for wc in (True, False):
                for rct in (True, False):
                    st = outer(lambda: entry(wc, rct))
                    fr = next((f for f in st.frames if f.funcname == "outer"), None)
                    if fr is None or st.error is not None:
                        return "%s: frames %s error %r" % (name, [f.funcname for f in st.frames], st.error)
                    if not wc:
                        if fr.contexts:
                            return "%s with_contexts=False: the frame has contexts" % name
                        continue
                    got = [len(c.frames) for c in fr.contexts[0].children] if fr.contexts else None
                    if got != ([1] if rct else [0]):
                        return ("%s with_contexts=True recurse_child_tasks=%s: the child stacks reported by a hook have frame counts %s"
                                % (name, rct, got))
    finally:
        kids[0].close()
    return None


def main():
    data = json.load(open(sys.argv[1]))
    out = {"n": 0, "steps": 0, "mismatches": []}
    why3 = options_through_entry_points()
    if why3:
        out["mismatches"].append({"step": 0, "act": {"a": "options through the entry points"}, "diff": why3, "behaviour": -1})
    why2 = options_through_builtin_glue()
    if why2:
        out["mismatches"].append({"step": 0, "act": {"a": "extract through the contextlib glue"}, "diff": why2, "behaviour": -1})
    why = frames_independent_of_options()
    if why:
        out["mismatches"].append({"step": 0, "act": {"a": "extract under the four option pairs"}, "diff": why, "behaviour": -1})
    for bi, beh in enumerate(data["behaviours"]):
        bad = run_behaviour(beh, data["threads"])
        out["n"] += 1
        out["steps"] += len(beh["acts"])
        if bad:
            bad["behaviour"] = bi
            out["mismatches"].append(bad)
            if len(out["mismatches"]) >= 5:
                break
    json.dump(out, open(sys.argv[2], "w"))


if __name__ == "__main__":
    main()
