"""Replay driver for Portal.tla (C15, greenback): every behaviour TLC exported is a script of call / return /
ensure_portal actions for ONE Trio task whose frames are command interpreters (a_frame: async def, s_frame: def).
After every action the innermost frame extracts its own task from inside (running), then parks in a Trio trap and the
run loop extracts it from outside; each real frame list is compared, frame by frame, with the specification's Walk
(class of every frame incl. greenback / outcome internals, user frame index, hide flag, contexts of user frames).
Needs trio + greenback + greenlet: project venv only.   usage: portal_driver.py <behaviours.json> <out.json>"""
import json
import sys
import traceback
import warnings

import greenback
import outcome
import trio

import stackscope

GB = {"greenback_shim": "GS", "_greenback_shim": "SH", "_greenback_shim_sync": "SHS", "trampoline": "TR",
      "await_": "AW", "with_portal_run": "WPR", "with_portal_run_sync": "WPRS", "adapt_awaitable": "ADAPT"}


class Box:
    """a non-coroutine awaitable around a coroutine (greenback.await_ then goes through adapt_awaitable)"""

    def __init__(self, coro):
        self.coro = coro

    def __await__(self):
        return self.coro.__await__()



class M:
    def __init__(self, tag):
        self.tag = tag

    def __enter__(self):
        return self

    def __exit__(self, *exc):
        return False


class AM:
    def __init__(self, tag):
        self.tag = tag

    async def __aenter__(self):
        return self

    async def __aexit__(self, *exc):
        return False


class BridgeMgr:
    """an async manager whose __aenter__ (when="enter") or __aexit__ (when="exit") IS the callee: it runs the next async
    frame of the script.  Used through `with greenback.async_context(...)` from a synchronous frame."""

    def __init__(self, ctl, idx, when):
        self.ctl, self.idx, self.when = ctl, idx, when

    def __bool__(self):
        return False

    async def __aenter__(self):
        if self.when == "enter":
            await a_frame(self.ctl, self.idx)
        return self

    async def __aexit__(self, *exc):
        if self.when == "exit":
            await a_frame(self.ctl, self.idx)
        return False


class Resumed(Exception):
    pass


def abort_fn(_):
    return trio.lowlevel.Abort.FAILED


class Ctl:
    def __init__(self, beh):
        self.acts = beh["acts"]
        self.obs = beh["obs"]
        self.k = 0            # actions performed so far
        self.done = False
        self.bad = []
        self.mgrs = {}        # callee idx -> manager object the caller holds around the call
        self.nobs = 0
        self.nsince = 0
        self.since_bad = []
        self.parks = 0

    # ---- script
    def pop(self):
        if self.k >= len(self.acts):
            self.done = True
            return None
        a = self.acts[self.k]
        self.k += 1
        return a

    def can_park(self):
        return bool(self.obs[self.k]["parked"])

    def new_mgr(self, idx, cls):
        m = cls(idx)
        self.mgrs[idx] = m
        return m

    # ---- observations
    def classify(self, f):
        name, mod = f.funcname, (f.modname or "")
        if name in ("a_frame", "s_frame") and f.pyframe.f_globals is globals():
            return ["U", f.pyframe.f_locals.get("idx")]
        if mod.startswith("greenback") and name in GB:
            return [GB[name], 0]
        if mod.startswith("greenback") and name in ("__enter__", "__exit__") and f.clsname == "async_context":
            return ["ACE" if name == "__enter__" else "ACX", 0]
        if name in ("__aenter__", "__aexit__") and f.pyframe.f_globals is globals() and isinstance(f.pyframe.f_locals.get("self"), BridgeMgr):
            return ["MEN" if name == "__aenter__" else "MEX", 0]
        if mod.startswith("outcome") and name == "send":
            return ["SEND", 0]
        if mod.startswith("trio") and name == "wait_task_rescheduled":
            return ["TRAP", 0]
        return ["?" + mod + "." + name, 0]

    def compare(self, where, st, wl):
        self.nobs += 1
        exp = self.obs[self.k][where]
        frames = list(st.frames)
        while frames and frames[-1].funcname in ("observe_inside",) and frames[-1].pyframe.f_globals is globals():
            frames.pop()
        want = [[x["fn"], x["u"], x["hide"]] for x in exp]
        real = [self.classify(f) + ["yes" if f.hide else "no"] for f in frames]
        for r, x in zip(real, want):
            if x[2] == "any":
                r[2] = "any"
        info = {"step": self.k, "where": where, "acts": self.acts[:self.k]}
        if real != want:
            self.bad.append(dict(info, what="frames differ", real=real, spec=want))
            return
        if st.error is not None:
            self.bad.append(dict(info, what="Stack.error %r" % (st.error,)))
        ws = [str(w.message)[:200] for w in wl if issubclass(w.category, stackscope.InspectionWarning)]
        if ws:
            self.bad.append(dict(info, what="InspectionWarning: %s" % ws[:2]))
        for f, x in zip(frames, exp):
            if x["fn"] != "U":
                continue
            cm = x["cm"]
            got = [(c.obj, bool(c.is_async), bool(c.is_exiting)) for c in f.contexts]
            if cm == "none":
                wantc = []
            else:
                wantc = [(self.mgrs.get(x["u"] + 1), cm == "async", cm == "gbx")]
            ok = len(got) == len(wantc) and all(g[0] is w[0] and g[1:] == w[1:] for g, w in zip(got, wantc))
            if not ok:
                self.bad.append(dict(info, what="contexts of user frame %d: %s, spec %s (%s)" % (
                    x["u"], [(type(g[0]).__name__, getattr(g[0], "tag", None), g[1], g[2]) for g in got],
                    [(type(w[0]).__name__, getattr(w[0], "tag", None), w[1], w[2]) for w in wantc], cm)))
                return

    def observe_since(self):
        """C04 under greenback: extract_since(None) from inside a task whose frames are spread over the portal's
        greenlets is exactly the thread's frame chain, continued through the greenlet parents (the way an exception
        would propagate), down to the caller"""
        import greenlet
        truth, f, g = [], sys._getframe(0), greenlet.getcurrent()
        while True:
            while f is not None:
                truth.append(f)
                f = f.f_back
            g = g.parent
            if g is None:
                break
            f = g.gr_frame
        truth.reverse()
        try:
            with warnings.catch_warnings(record=True):
                warnings.simplefilter("always")
                st = stackscope.extract_since(None)
        except BaseException as ex:
            self.since_bad.append({"step": self.k, "what": "extract_since(None) raised %r" % (ex,), "acts": self.acts[:self.k]})
            return
        self.nsince += 1
        got = [fr.pyframe for fr in st.frames]
        if got != truth or st.error is not None:
            names = lambda fs: [x.f_code.co_name for x in fs]       # noqa: E731
            k = 0
            while k < min(len(got), len(truth)) and got[k] is truth[k]:
                k += 1
            self.since_bad.append({"step": self.k, "acts": self.acts[:self.k],
                                   "what": "extract_since(None) inside a greenback task: %d frames, the thread has %d; they differ from "
                                           "index %d: ...%s vs ...%s (error %r)" % (len(got), len(truth), k, names(got[k:k + 4]), names(truth[k:k + 4]), st.error)})

    def observe_inside(self):
        self.observe_since()
        task = trio.lowlevel.current_task()
        with warnings.catch_warnings(record=True) as wl:
            warnings.simplefilter("always")
            try:
                st = stackscope.extract(task.coro)
            except BaseException as ex:
                self.bad.append({"step": self.k, "where": "inside", "what": "extract raised %r" % (ex,)})
                return
        self.compare("inside", st, wl)

    def arm(self):
        task = trio.lowlevel.current_task()

        def report():
            try:
                with warnings.catch_warnings(record=True) as wl:
                    warnings.simplefilter("always")
                    st = stackscope.extract(task.coro)
                self.compare("outside", st, wl)
            except BaseException as ex:
                self.bad.append({"step": self.k, "where": "outside", "what": "extract raised %r" % (ex,)})
            finally:
                # resumed by a value and by an exception in turn: the bridging frame greenback leaves on each greenlet
                # stack is outcome.Value.send or outcome.Error.send accordingly (hidden, both)
                self.parks += 1
                trio.lowlevel.reschedule(task, outcome.Error(Resumed()) if self.parks % 2 else outcome.Value(None))
        trio.lowlevel.current_trio_token().run_sync_soon(report)


async def a_frame(ctl, idx):
    while not ctl.done:
        ctl.observe_inside()
        if ctl.can_park():
            ctl.arm()
            try:
                await trio.lowlevel.wait_task_rescheduled(abort_fn)
            except Resumed:
                pass
        act = ctl.pop()
        if act is None or act["a"] == "ret":
            return
        if act["a"] == "ensure":
            await greenback.ensure_portal()
            continue
        e = act["edge"]
        if act["cm"] == "async":
            async with ctl.new_mgr(idx + 1, AM):
                if e == "await":
                    await a_frame(ctl, idx + 1)
                elif e == "wpr":
                    await greenback.with_portal_run(a_frame, ctl, idx + 1)
                elif e == "call":
                    s_frame(ctl, idx + 1)
                else:
                    await greenback.with_portal_run_sync(s_frame, ctl, idx + 1)
        else:
            if e == "await":
                await a_frame(ctl, idx + 1)
            elif e == "wpr":
                await greenback.with_portal_run(a_frame, ctl, idx + 1)
            elif e == "call":
                s_frame(ctl, idx + 1)
            else:
                await greenback.with_portal_run_sync(s_frame, ctl, idx + 1)


def s_frame(ctl, idx):
    while not ctl.done:
        ctl.observe_inside()
        if ctl.can_park():
            ctl.arm()
            try:
                greenback.await_(trio.lowlevel.wait_task_rescheduled(abort_fn))
            except Resumed:
                pass
        act = ctl.pop()
        if act is None or act["a"] == "ret":
            return
        e = act["edge"]
        if e in ("actx_en", "actx_ex"):
            m = BridgeMgr(ctl, idx + 1, "enter" if e == "actx_en" else "exit")
            ctl.mgrs[idx + 1] = m
            with greenback.async_context(m):
                pass
        elif act["cm"] == "sync":
            with ctl.new_mgr(idx + 1, M):
                if e == "call":
                    s_frame(ctl, idx + 1)
                elif e == "await_o":
                    greenback.await_(Box(a_frame(ctl, idx + 1)))
                else:
                    greenback.await_(a_frame(ctl, idx + 1))
        elif act["cm"] == "gb":
            with greenback.async_context(ctl.new_mgr(idx + 1, AM)):
                if e == "call":
                    s_frame(ctl, idx + 1)
                elif e == "await_o":
                    greenback.await_(Box(a_frame(ctl, idx + 1)))
                else:
                    greenback.await_(a_frame(ctl, idx + 1))
        else:
            if e == "call":
                s_frame(ctl, idx + 1)
            elif e == "await_o":
                greenback.await_(Box(a_frame(ctl, idx + 1)))
            else:
                greenback.await_(a_frame(ctl, idx + 1))


def run_behaviour(beh):
    ctl = Ctl(beh)
    try:
        trio.run(a_frame, ctl, 1)
    except BaseException:
        ctl.bad.append({"step": ctl.k, "where": "harness", "what": "harness: " + traceback.format_exc()[-600:],
                        "acts": beh["acts"]})
    if not ctl.bad and ctl.k != len(beh["acts"]):
        ctl.bad.append({"step": ctl.k, "where": "harness", "what": "harness: script not consumed", "acts": beh["acts"]})
    return ctl


def main():
    data = json.load(open(sys.argv[1]))
    out = {"n": 0, "observations": 0, "mismatches": [], "since_n": 0, "since_mismatches": []}
    for beh in data["behaviours"]:
        ctl = run_behaviour(beh)
        out["n"] += 1
        out["observations"] += ctl.nobs
        out["mismatches"] += ctl.bad[:2]
        out["since_n"] += ctl.nsince
        out["since_mismatches"] += ctl.since_bad[:2]
    json.dump(out, open(sys.argv[2], "w"), default=repr)


if __name__ == "__main__":
    main()
