"""Schedule-replay driver for M4 (GlueInstall): real threads run real extractions; every guarded probe point of
add_glue_as_needed is a yield point at which the worker blocks until the controller (following a TLC
behaviour action by action) releases it.  After every action the projection of the real state is compared
with the specification's.  stdlib-only.

usage: glue_driver.py <behaviours.json> <out.json>
behaviours.json: {"config": {"mods": [...], "hasB": [...], "flavour": {m: ..}, "imp": m}, "behaviours": [{"acts":..,"projs":..}]}"""
import json
import sys
import threading
import types
import warnings

import stackscope
from stackscope import _glue, _verif

assert _verif.ENABLED, "STACKSCOPE_VERIF=1 required"

POINT = {"glue_check": "check", "glue_fast": "fast", "glue_wait": "wait", "glue_snapshot": "snap", "glue_next": "next",
         "glue_popb": "popb", "glue_popm": "popm", "glue_called": "called", "glue_cache": "cache", "glue_release": "release"}
TIMEOUT = 10.0


def zz(m):
    return "zz_verif_" + m



_ENTRY = [0]


def an_extraction():
    """one extraction through one of the public entry points, taken in rotation: C17 speaks of ANY extraction"""
    k = _ENTRY[0]
    _ENTRY[0] = k + 1
    k %= 4
    if k == 0:
        stackscope.extract(None, with_contexts=False)
    elif k == 1:
        try:
            stackscope.extract_outermost(None, with_contexts=False)
        except RuntimeError:
            pass                      # None has no frames
    elif k == 2:
        stackscope.extract_since(None, with_contexts=False)
    else:
        stackscope.extract_until(sys._getframe(0), limit=1, with_contexts=False)


class PlainEntry:
    """not a module: an arbitrary object sitting in sys.modules"""

    def __init__(self, name):
        self.__name__ = name


class FalsyCallable:
    def __init__(self, fn):
        self.fn = fn

    def __bool__(self):
        return False

    def __call__(self):
        return self.fn()

class Mismatch(Exception):
    pass


class Stuck(Exception):
    pass


class World:
    def __init__(self, cfg):
        self.cfg = cfg
        self.mods = cfg["mods"]
        self.calls = []
        self.warned = 0
        self.cv = threading.Condition()
        self.at = {}          # worker -> point it is blocked at (or "idle")
        self.permits = {}
        self.cmd = {}
        self.workers = {}
        self.stop = False
        # sys.modules entries need not be module objects (a module may replace itself there by any object: a lazy
        # proxy, a class instance): every second synthetic "module" is a plain object with an instance __dict__
        self.modobj = {m: (types.ModuleType(zz(m)) if k % 2 == 0 else PlainEntry(zz(m))) for k, m in enumerate(self.mods)}
        if cfg.get("alias"):
            # one module object under two names
            self.modobj[self.mods[1]] = self.modobj[self.mods[0]]
        # ... and a module is in sys.modules from the moment its import STARTS: every other real module object looks the
        # way a module does while its body is still running (its spec says so)
        import importlib.machinery
        for k, m in enumerate(self.mods):
            if k % 4 == 0:
                spec = importlib.machinery.ModuleSpec(zz(m), None)
                spec._initializing = True
                self.modobj[m].__spec__ = spec
        self.cache = _glue.add_glue_as_needed.__kwdefaults__["_sys_modules_len_cache"]
        _verif.sink = self.sink

    # ---- synthetic glue
    def mod_fn(self, m):
        fl = self.cfg["flavour"][m]
        tgt = self.cfg["imp"]

        def fn():
            self.calls.append([m, "module"])
            if fl == "raises":
                raise ValueError("glue of %s fails" % m)
            if fl == "imports" and zz(tgt) not in sys.modules:
                sys.modules[zz(tgt)] = self.modobj[tgt]
            if fl == "removes":
                sys.modules.pop(zz(tgt), None)
        # glue "functions" are callables that are FALSY objects (a callable collection of hooks, say): whether a
        # module has glue is a question of presence, not of truthiness
        return FalsyCallable(fn)

    def builtin_fn(self, m):
        def fn():
            self.calls.append([m, "builtin"])
        return FalsyCallable(fn)

    def reset(self):
        for m in self.mods:
            sys.modules.pop(zz(m), None)
            self.modobj[m].__dict__.pop("_stackscope_install_glue_", None)
            _glue.builtin_glue_pending.pop(zz(m), None)
            if self.cfg["flavour"][m] != "none":
                self.modobj[m].__dict__["_stackscope_install_glue_"] = self.mod_fn(m)
            if m in self.cfg["hasB"]:
                _glue.builtin_glue_pending[zz(m)] = self.builtin_fn(m)
        self.calls = []
        self.warned = 0
        self.base = len(sys.modules)
        self.cache[0] = self.base

    # ---- workers
    def sink(self, name, fields):
        t = threading.current_thread().name
        if t not in self.workers:
            return
        if name not in POINT:
            return
        if name in ("glue_next", "glue_popb", "glue_popm", "glue_called") and not fields["module"].startswith("zz_verif_"):
            return
        with self.cv:
            self.at[t] = POINT[name]
            self.cv.notify_all()
            while self.permits[t] == 0:
                if not self.cv.wait(TIMEOUT * 6):
                    raise Stuck("worker %s not released at %s" % (t, name))
            self.permits[t] -= 1
            self.at[t] = "running"

    def worker(self, t):
        while True:
            with self.cv:
                while not self.cmd[t] and not self.stop:
                    self.cv.wait(1.0)
                if self.stop:
                    return
                self.cmd[t] = False
                self.at[t] = "running"
            try:
                with warnings.catch_warnings():
                    warnings.simplefilter("ignore")
                    an_extraction()
            except BaseException as ex:
                with self.cv:
                    self.at[t] = "crashed:%r" % (ex,)
                    self.cv.notify_all()
                continue
            with self.cv:
                self.at[t] = "idle"
                self.cv.notify_all()

    def start_workers(self, names):
        for t in names:
            self.permits[t] = 0
            self.cmd[t] = False
            self.at[t] = "idle"
            th = threading.Thread(target=self.worker, args=(t,), name=t, daemon=True)
            self.workers[t] = th
        for th in self.workers.values():
            th.start()

    def wait_arrival(self, t):
        with self.cv:
            ok = self.cv.wait_for(lambda: self.at[t] != "running", TIMEOUT)
            if not ok:
                raise Mismatch("thread %s did not reach a probe point (blocked on the lock?)" % t)
            return self.at[t]

    # ---- one action of the specification
    def act(self, a):
        name, arg = a
        if name == "Import":
            sys.modules[zz(arg)] = self.modobj[arg]
        elif name == "Remove":
            del sys.modules[zz(arg)]
        elif name == "Start":
            with self.cv:
                if self.at[arg] != "idle":
                    raise Mismatch("Start(%s) but the thread is at %s" % (arg, self.at[arg]))
                self.at[arg] = "running"
                self.cmd[arg] = True
                self.cv.notify_all()
            self.wait_arrival(arg)
        else:
            t = arg
            with self.cv:
                self.at[t] = "running"
                self.permits[t] += 1
                self.cv.notify_all()
            self.wait_arrival(t)

    def projection(self):
        names = [k[len("zz_verif_"):] for k in list(sys.modules) if k.startswith("zz_verif_")]
        return {
            "sysmods": names,
            "pending": {m: zz(m) in _glue.builtin_glue_pending for m in self.mods},
            "fnLeft": {m: "_stackscope_install_glue_" in self.modobj[m].__dict__ for m in self.mods},
            "cache": self.cache[0] - (len(sys.modules) - len(names)),
            "locked": _glue.glue_lock.locked(),
            "calls": [list(c) for c in self.calls],
            "pc": dict(self.at),
        }

    def drain(self):
        """let every worker run to completion (after a mismatch), so the next behaviour starts clean"""
        for _ in range(400):
            with self.cv:
                busy = [t for t, p in self.at.items() if p not in ("idle",) and not p.startswith("crashed")]
                if not busy:
                    return
                for t in busy:
                    if self.at[t] != "running":
                        self.at[t] = "running"
                        self.permits[t] += 1
                self.cv.notify_all()
                self.cv.wait(0.05)
        raise Stuck("workers did not drain")


def compare(spec, real):
    bad = []
    if spec["sysmods"] != real["sysmods"]:
        bad.append("sys.modules: spec %s real %s" % (spec["sysmods"], real["sysmods"]))
    if spec["pending"] != real["pending"]:
        bad.append("builtin_glue_pending: spec %s real %s" % (spec["pending"], real["pending"]))
    if spec["fnLeft"] != real["fnLeft"]:
        bad.append("module glue attr: spec %s real %s" % (spec["fnLeft"], real["fnLeft"]))
    if spec["cache"] != real["cache"]:
        bad.append("length cache: spec %s real %s" % (spec["cache"], real["cache"]))
    if (spec["lock"] != "none") != real["locked"]:
        bad.append("lock: spec holder %s real locked=%s" % (spec["lock"], real["locked"]))
    if [list(c) for c in spec["calls"]] != real["calls"]:
        bad.append("glue calls: spec %s real %s" % (spec["calls"], real["calls"]))
    for t, p in spec["pc"].items():
        if real["pc"].get(t) != p:
            bad.append("thread %s: spec at %s real at %s" % (t, p, real["pc"].get(t)))
    return bad


def free_running(data):
    """pattern T: threads extract freely while an environment thread edits sys.modules; probes only log"""
    import random
    cfg = data["config"]
    world = World(cfg)
    rng = random.Random(data.get("seed", 0))
    names = data["threads"]
    traces = []
    old = sys.getswitchinterval()
    sys.setswitchinterval(1e-5)
    try:
        world.reset()
        stackscope.extract(None, with_contexts=False)      # warm-up (lazy imports)
        for rnd in range(data["rounds"]):
            world.reset()
            events = []

            def sink(name, fields, events=events):
                t = threading.current_thread().name
                if t not in names or name not in POINT:
                    return
                m = fields.get("module")
                if name in ("glue_next", "glue_popb", "glue_popm", "glue_called"):
                    if not m.startswith("zz_verif_"):
                        return
                    m = m[len("zz_verif_"):]
                else:
                    m = "-"
                events.append({"t": t, "e": "arrive", "p": POINT[name], "m": m, "op": "-"})
            _verif.sink = sink
            barrier = threading.Barrier(len(names) + 1)
            nex = rng.choice([1, 2, 2, 3])

            def work():
                me = threading.current_thread().name
                barrier.wait()
                for _ in range(nex):
                    with warnings.catch_warnings():
                        warnings.simplefilter("ignore")
                        an_extraction()
                    events.append({"t": me, "e": "arrive", "p": "idle", "m": "-", "op": "-"})   # back outside the routine

            def env():
                barrier.wait()
                present = set()
                for _ in range(rng.choice([2, 3, 4, 5])):
                    m = rng.choice(world.mods)
                    if m in present:
                        events.append({"t": "env", "e": "begin", "p": "-", "m": m, "op": "Remove"})
                        sys.modules.pop(zz(m), None)
                        present.discard(m)
                    else:
                        events.append({"t": "env", "e": "begin", "p": "-", "m": m, "op": "Import"})
                        sys.modules[zz(m)] = world.modobj[m]
                        present.add(m)
                    events.append({"t": "env", "e": "end", "p": "-", "m": m, "op": "-"})
                    for _ in range(rng.choice([0, 50, 400])):
                        pass
            ths = [threading.Thread(target=work, name=n) for n in names] + [threading.Thread(target=env, name="env")]
            for th in ths:
                th.start()
            for th in ths:
                th.join(30)
            _verif.sink = None
            traces.append({"events": events, "calls": [list(c) for c in world.calls]})
    finally:
        _verif.sink = None
        sys.setswitchinterval(old)
        world.reset()
    return {"traces": traces}


def main():
    if len(sys.argv) > 3 and sys.argv[3] == "free":
        data = json.load(open(sys.argv[1]))
        json.dump(free_running(data), open(sys.argv[2], "w"))
        return
    data = json.load(open(sys.argv[1]))
    world = World(data["config"])
    threads = sorted({a[1] for b in data["behaviours"] for a in b["acts"] if a[0] == "Start"})
    world.start_workers(threads)
    # warm-up: make every lazy import happen before the module count is taken as the base
    world.reset()
    stackscope.extract(None, with_contexts=False)
    warnings.warn("warm-up", RuntimeWarning) if False else None
    out = {"n": 0, "steps": 0, "mismatches": [], "skipped": 0, "strict": [], "returns_checked": 0}
    cfg = data["config"]
    bearing = [m for m in cfg["mods"] if m in cfg["hasB"] or cfg["flavour"][m] != "none"]
    for bi, beh in enumerate(data["behaviours"]):
        world.reset()
        bad = None
        start_mods, removed = {}, {}
        snap_of, last_scanned, collision = {}, set(), False
        projs = beh.get("projs") or [None] * len(beh["acts"])
        try:
            for k, (a, proj) in enumerate(zip(beh["acts"], projs)):
                world.act(a)
                real = world.projection()
                # ---- the property itself, evaluated on the REAL state (independent of the model's verdict)
                # independent signature of F4: a fast-path exit while the module set differs from the last scanned one
                if a[0] == "LeaveWait":
                    snap_of[a[1]] = set(real["sysmods"])
                elif a[0] == "LeaveCache":
                    last_scanned = snap_of.get(a[1], set())
                elif a[0] == "LeaveCheck" and real["pc"].get(a[1]) == "fast" and set(real["sysmods"]) != last_scanned:
                    collision = True
                if a[0] == "Start":
                    start_mods[a[1]] = set(real["sysmods"])
                    removed[a[1]] = set()
                elif a[0] == "Remove":
                    for t in removed:
                        removed[t].add(a[1])
                if a[0] in ("LeaveCheck", "LeaveCache") and real["pc"].get(a[1]) in ("fast", "release"):
                    out["returns_checked"] += 1
                    # modules removed by glue functions themselves count as removed, too
                    gone = {m for m in start_mods.get(a[1], ()) if m not in real["sysmods"]}
                    for m in start_mods.get(a[1], set()) - removed.get(a[1], set()) - gone:
                        if m in bearing and (real["pending"][m] or real["fnLeft"][m]):
                            out["strict"].append({"behaviour": bi, "step": k, "what": "InTime: extraction of %s returns but the glue of module %s (present since before it started) has not run" % (a[1], m),
                                                  "f4": collision, "flags": beh.get("flags"), "acts": beh["acts"][:k + 1]})
                seen = {}
                for m, kind in real["calls"]:
                    seen.setdefault(m, []).append(kind)
                for m, kinds in seen.items():
                    if len(kinds) > 1 and not any(s.get("k") == ("twice", bi, m) for s in out["strict"]):
                        out["strict"].append({"k": ("twice", bi, m), "behaviour": bi, "step": k, "what": "glue of module %s ran %s" % (m, kinds),
                                              "flags": beh.get("flags"), "acts": beh["acts"][:k + 1]})
                    if "builtin" in kinds and cfg["flavour"][m] != "none" and not any(s.get("k") == ("beats", bi, m) for s in out["strict"]):
                        out["strict"].append({"k": ("beats", bi, m), "behaviour": bi, "step": k, "what": "built-in glue ran for module %s although it provides its own" % m,
                                              "flags": beh.get("flags"), "acts": beh["acts"][:k + 1]})
                diff = compare(proj, real) if proj is not None else []
                out["steps"] += 1
                if diff:
                    bad = {"behaviour": bi, "step": k, "action": a, "diff": diff, "acts": beh["acts"][:k + 1]}
                    break
        except Mismatch as ex:
            bad = {"behaviour": bi, "step": k, "action": a, "diff": [str(ex)], "acts": beh["acts"][:k + 1]}
        if bad:
            bad["flags"] = beh.get("flags")
            out["mismatches"].append(bad)
            try:
                world.drain()
            except Stuck as ex:
                # the workers cannot be brought back to a clean state: report what was found and stop replaying
                out["aborted"] = "after the mismatch in behaviour %d: %s" % (bi, ex)
                out["n"] += 1
                break
        out["n"] += 1
    world.stop = True
    try:
        world.reset()
    except BaseException:
        pass
    for s_ in out["strict"]:
        s_.pop("k", None)
    json.dump(out, open(sys.argv[2], "w"))


if __name__ == "__main__":
    main()
