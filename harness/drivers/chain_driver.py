"""Replay driver for the chains of Chains.tla (C03, C16): builds each await / yield-from chain for real,
drives it to its suspension, extracts, and compares with (a) the specification's expectation and (b) the
path an exception really takes (handler log + traceback of a thrown probe).  Also records the H1 traces
of every extraction for ExtractIterTrace.  stdlib-only.

usage: chain_driver.py <chains.json> <out.json>"""
import gc
import json
import sys
import threading
import types
import warnings

import stackscope
from stackscope import _extract

sys.path.insert(0, __import__("os").path.dirname(__import__("os").path.dirname(__import__("os").path.dirname(__import__("os").path.abspath(__file__)))))
from harness import rec_m1  # noqa: E402


class Probe(Exception):
    pass


class Probe2(Exception):
    pass


def safe_repr(x):
    try:
        return repr(x)
    except Exception as ex:
        return "<%s whose repr raises %s>" % (type(x).__name__, type(ex).__name__)


class PlainIter:
    """a non-frame leaf; every third one cannot be printed (a future-like object whose repr reads a result that is not
    there yet): what the chain's frames are does not depend on what its leaf looks like"""
    unprintable = False

    def __repr__(self):
        if self.unprintable:
            raise AttributeError("result is not set")
        return object.__repr__(self)

    def __iter__(self):
        return self

    def __len__(self):
        return 0        # a falsy leaf: "nothing left to hand out"

    def __next__(self):
        return "leaf-yield"

    def send(self, v):
        return "leaf-yield"

    def throw(self, *a):
        raise a[0] if not isinstance(a[0], type) else a[0]()

    def close(self):
        pass


class AwaitIter:
    def __init__(self, it):
        self.it = it

    def __await__(self):
        return self.it


class CW:
    def __init__(self, c):
        self.c = c

    def __await__(self):
        return self.c.__await__()


class AG:
    def __init__(self, g):
        self.g = g

    def __await__(self):
        return self.g


class Hostile:
    def __call__(self, *a, **k):
        raise AttributeError("'NoneType' object has no attribute 'errisinstance'")

    def __bool__(self):
        raise ValueError("the truth value of this object is ambiguous")

    def __eq__(self, other):
        raise ValueError("not comparable")

    __hash__ = None


HOSTILE = Hostile()


class B:
    """one built chain"""

    def __init__(self, chain, term):
        self.chain = chain
        self.term = term
        self.n = len(chain)
        self.objs = {}
        self.leaf = None
        self.log = []
        self.keep = []
        self.salt = 0

    def k(self, i):
        return self.chain[i - 1]["k"]

    def tbh(self, i):
        """what link i keeps in a local called __tracebackhide__: nothing / True / False / an object that cannot be
        called or tested (pytest also accepts a predicate there; the frames of the chain do not depend on any of it)"""
        return (None, True, False, HOSTILE)[(self.salt + i) % 4]

    def is_last(self, i):
        return i == self.n

    def note(self, i):
        tb = sys.exc_info()[2]
        self.log.append((i, tb.tb_frame, tb.tb_lineno))

    def make(self, i):
        fn = {"coro": coro_link, "gcoro": gcoro_link, "gen": gen_link, "agen": agen_link}[self.k(i)]
        o = fn(self, i)
        self.objs[i] = o
        return o

    def mode(self, i):
        """what link i does at its suspension: 'trap' | 'iter' | 'done' | 'agen:<via>' | 'wait'"""
        if self.is_last(i):
            return self.term
        c = self.chain[i]
        if c["k"] == "agen":
            return "agen:" + c["via"]
        return "wait"

    def child(self, i):
        """the object link i awaits / yields from (creating link i+1)"""
        c = self.chain[i]
        o = self.make(i + 1)
        if c["a"] == "cw":
            a = CW(o)
            self.keep.append(a)
            return a
        if c["a"] == "ag":
            a = AG(o)
            self.keep.append(a)
            return a
        return o

    def probe(self):
        """term 'run': extract the running root from inside the innermost link"""
        rec = self.rec
        rec.take()
        with warnings.catch_warnings(record=True) as wl:
            warnings.simplefilter("always")
            st = stackscope.extract(self.objs[1])
            self.run_traces = [r.to_json() for r in rec.take() if not r.unbindable]
            self.run_result = (st, [str(w.message)[:150] for w in wl])
            inherited, c16 = [], []
            for idx, fr in enumerate(st.frames):
                if fr.origin is None:
                    continue
                try:
                    om = stackscope.extract_outermost(fr.origin)
                    okay = om.pyframe is fr.pyframe
                except Exception:
                    okay = False
                if not okay:
                    # independent signature of F5: an earlier frame of this extraction already carries the same origin
                    if any(st.frames[j].origin is fr.origin for j in range(idx)):
                        inherited.append(idx)
                    else:
                        c16.append("frame %d: extract_outermost(origin).pyframe is not the frame" % idx)
            self.run_origin = (inherited, c16)
            rec.take()

    def leaf_for(self, awaiting):
        self.leaf = PlainIter()
        self.leaf.unprintable = self.salt % 3 == 1
        if awaiting:
            a = AwaitIter(self.leaf)
            self.keep.append(a)
            return a
        return self.leaf


async def coro_link(b, i):
    try:
        _h = b.tbh(i)
        if _h is not None:
            __tracebackhide__ = _h  # noqa: F841
        m = b.mode(i)
        if m == "done":
            return 7
        elif m == "iter":
            await b.leaf_for(True)
        elif m == "run":
            b.probe()
        elif m == "wait":
            await b.child(i)
        elif m == "agen:anext":
            await b.child(i).__anext__()
        elif m == "agen:asend":
            await b.child(i).asend(None)
        elif m == "agen:asyncfor":
            async for _ in b.child(i):
                pass
        elif m == "agen:athrow":
            ag = b.child(i)
            await ag.asend(None)
            await ag.athrow(Probe2())
        elif m == "agen:aclose":
            ag = b.child(i)
            await ag.asend(None)
            await ag.aclose()
        else:
            raise AssertionError(m)
    except BaseException:
        b.note(i)
        raise


@types.coroutine
def gcoro_link(b, i):
    try:
        _h = b.tbh(i)
        if _h is not None:
            __tracebackhide__ = _h  # noqa: F841
        m = b.mode(i)
        if m == "done":
            return 7
        elif m == "trap":
            yield "trap"
        elif m == "iter":
            yield from b.leaf_for(False)
        elif m == "run":
            b.probe()
        else:
            yield from b.child(i)
    except BaseException:
        b.note(i)
        raise


def gen_link(b, i):
    try:
        _h = b.tbh(i)
        if _h is not None:
            __tracebackhide__ = _h  # noqa: F841
        m = b.mode(i)
        if m == "done":
            return 7
        elif m == "trap":
            yield "trap"
        elif m == "iter":
            yield from b.leaf_for(False)
        elif m == "run":
            b.probe()
        else:
            yield from b.child(i)
    except BaseException:
        b.note(i)
        raise


async def agen_link(b, i):
    try:
        _h = b.tbh(i)
        if _h is not None:
            __tracebackhide__ = _h  # noqa: F841
        via = b.chain[i - 1]["via"]
        if via in ("athrow", "aclose"):
            try:
                yield "pre"
            except (Probe2, GeneratorExit):
                pass
        m = b.mode(i)
        if m == "done":
            return
        elif m == "trap":
            yield "own"
        elif m == "iter":
            await b.leaf_for(True)
        elif m == "run":
            b.probe()
        elif m == "wait":
            await b.child(i)
        elif m == "agen:anext":
            await b.child(i).__anext__()
        elif m == "agen:asend":
            await b.child(i).asend(None)
        elif m == "agen:asyncfor":
            async for _ in b.child(i):
                pass
        elif m == "agen:athrow":
            ag = b.child(i)
            await ag.asend(None)
            await ag.athrow(Probe2())
        elif m == "agen:aclose":
            ag = b.child(i)
            await ag.asend(None)
            await ag.aclose()
        else:
            raise AssertionError(m)
        if via not in ("aclose",):
            yield "post"
    except BaseException:
        b.note(i)
        raise


# ---- C16: an elaborate_frame hook that splices a custom item (holding a parked generator's frame) into a chain
class FrameBox:
    def __init__(self, frame):
        self.frame = frame


@stackscope.unwrap_stackitem.register(FrameBox)
def _unwrap_box(box):
    return [box.frame]


def _parked():
    yield "parked"


SPLICE = {"mode": None, "builder": None, "box": None}


@stackscope.elaborate_frame.register(coro_link)
def _splice_hook(frame, next_inner):
    b = SPLICE["builder"]
    if SPLICE["mode"] is None or b is None or frame.pyframe is not getattr(b.objs.get(1), "cr_frame", None):
        return None
    if SPLICE["mode"] == "insert":
        return (SPLICE["box"], next_inner)
    return (SPLICE["box"],)


def check_splice(b, x, rec, exp):
    """origin contract when a hook splices a non-generator item into a suspended chain"""
    c16, traces = [], []
    pg = _parked()
    next(pg)
    SPLICE["box"] = FrameBox(pg.gi_frame)
    SPLICE["builder"] = b
    try:
        for mode in ("insert", "replace"):
            SPLICE["mode"] = mode
            rec.take()
            with warnings.catch_warnings(record=True):
                warnings.simplefilter("always")
                st = stackscope.extract(x)
            runs = rec.take()
            SPLICE["mode"] = None
            names = [fr.funcname for fr in st.frames]
            want = [code_name(b.k(exp[0])), "_parked"] + ([code_name(b.k(i)) for i in exp[1:]] if mode == "insert" else [])
            if names != want:
                c16.append("splice/%s: frames %s, expected %s" % (mode, names, want))
            for idx, fr in enumerate(st.frames):
                if fr.origin is None:
                    continue
                try:
                    om = stackscope.extract_outermost(fr.origin)
                    if om.pyframe is not fr.pyframe:
                        c16.append("splice/%s: frame %d (%s): extract_outermost(origin).pyframe is another frame" % (mode, idx, fr.funcname))
                except Exception as ex:
                    c16.append("splice/%s: frame %d: origin contract raised %r" % (mode, idx, ex))
            rec.take()
            traces += [r.to_json() for r in runs if not r.unbindable]
    finally:
        SPLICE["mode"] = None
        SPLICE["builder"] = None
        pg.close()
    return c16, traces


CODE_OF = {"coro": coro_link.__code__, "gcoro": gcoro_link.__wrapped__.__code__ if hasattr(gcoro_link, "__wrapped__") else None,
           "gen": gen_link.__code__, "agen": agen_link.__code__}


def code_name(k):
    return {"coro": "coro_link", "gcoro": "gcoro_link", "gen": "gen_link", "agen": "agen_link"}[k]


def run_chain(case, rec):
    chain, term = case["chain"], case["term"]
    b = B(chain, term)
    b.salt = case.get("salt", 0)
    b.rec = rec
    bad = []
    if term == "run":
        return run_running(case, b)
    x = b.make(1)
    rootk = b.k(1)
    aw = None
    # ---- drive to the suspension
    try:
        if rootk == "agen":
            aw = x.asend(None)
            aw.send(None)
        else:
            x.send(None)
        stopped = False
    except (StopIteration, StopAsyncIteration):
        stopped = True
    if term == "done" and not stopped:
        return {"skip": "harness: done-chain did not finish"}
    if term != "done" and stopped and not (rootk == "agen" and term == "trap"):
        return {"skip": "harness: chain finished instead of suspending"}
    # ---- extract (recorded), twice: with and without contexts
    rec.take()
    with warnings.catch_warnings(record=True) as wl:
        warnings.simplefilter("always")
        st = stackscope.extract(x)
        runs = rec.take()
        st2 = stackscope.extract(x, with_contexts=False)
        rec.take()
    if wl:
        bad.append("warnings: %s" % [str(w.message)[:120] for w in wl])
    if st.error is not None:
        bad.append("error: %r" % (st.error,))
    # (a) the specification's expectation
    exp = case["frames"]
    names = [fr.funcname for fr in st.frames]
    if names != [code_name(b.k(i)) for i in exp]:
        bad.append("frames: spec links %s (%s) impl %s" % (exp, [b.k(i) for i in exp], names))
    if case["leaf"] == "iter":
        if st.leaf is not b.leaf:
            bad.append("leaf: expected the plain iterator, got %s" % safe_repr(st.leaf))
    elif st.leaf is not None:
        bad.append("leaf: expected None, got %s" % safe_repr(st.leaf))
    if st.root is not x:
        bad.append("root is not x")
    def sig(fs):
        return [(f.pyframe, f.lineno, id(f.origin), bool(f.hide), bool(f.hide_line)) for f in fs]
    if sig(st2.frames) != sig(st.frames) or st2.leaf is not st.leaf:
        bad.append("with_contexts=False gives different frames (frame object, line, origin or flags)")
    if any(f.contexts for f in st2.frames):
        bad.append("with_contexts=False left contexts")
    # ... and the frames are the frames even when the context analysis of one of them FAILS (the failure is recorded)
    if st.frames:
        from stackscope import _extract as _ex
        orig_ctx = _ex.contexts_active_in_frame
        victim = st.frames[0].pyframe

        class CtxFault(KeyError):
            pass

        def failing(pyframe, *a, **k):
            if pyframe is victim:
                raise CtxFault("self")
            return orig_ctx(pyframe, *a, **k)
        _ex.contexts_active_in_frame = failing
        try:
            st3 = stackscope.extract(x)
        except BaseException as ex:
            bad.append("context analysis of the outermost frame fails: extract raised %r" % (ex,))
            st3 = None
        finally:
            _ex.contexts_active_in_frame = orig_ctx
        if st3 is not None:
            if [f.pyframe for f in st3.frames] != [f.pyframe for f in st.frames] or st3.leaf is not st.leaf:
                bad.append("context analysis of the outermost frame fails: frames %d, fault-free %d" % (len(st3.frames), len(st.frames)))
            errs = [st3.error] if st3.error is not None and not hasattr(st3.error, "exceptions") else list(getattr(st3.error, "exceptions", []))
            if not any(isinstance(e, CtxFault) for e in errs):
                bad.append("context analysis of the outermost frame fails: the failure is not in Stack.error (%r)" % (st3.error,))
    # C16: origins and extract_outermost
    c16 = []
    for idx, fr in enumerate(st.frames):
        want = b.objs.get(exp[idx]) if idx < len(exp) else None
        if fr.origin is not want:
            c16.append("frame %d origin %r is not its owning object" % (idx, fr.origin))
        if fr.origin is not None:
            try:
                import weakref
                weakref.ref(fr.origin)
                om = stackscope.extract_outermost(fr.origin)
                if om.pyframe is not fr.pyframe:
                    c16.append("extract_outermost(origin).pyframe is not frame %d" % idx)
            except Exception as ex:
                c16.append("origin contract raised %r" % (ex,))
    try:
        om = stackscope.extract_outermost(x)
        if not st.frames:
            c16.append("extract_outermost returned although extract has no frames")
        else:
            f0 = st.frames[0]
            if not (om.pyframe is f0.pyframe and om.lineno == f0.lineno and om.contexts == f0.contexts
                    and om.hide == f0.hide and om.hide_line == f0.hide_line):
                c16.append("extract_outermost(x) differs from extract(x).frames[0]")
    except RuntimeError:
        if st.frames:
            c16.append("extract_outermost raised although extract has frames")
    except Exception as ex:
        c16.append("extract_outermost raised %r" % (ex,))
    rec.take()
    splice_traces = []
    if b.k(1) == "coro" and term != "done" and exp:
        c16x, splice_traces = check_splice(b, x, rec, exp)
        c16.extend(c16x)
    # (b) the path an exception takes
    frames_before = [(f.pyframe, f.lineno) for f in st.frames]
    del st, st2
    if term != "done":
        try:
            if aw is not None and not stopped:
                aw.throw(Probe())
            elif rootk == "agen":
                x.athrow(Probe()).send(None)
            else:
                x.throw(Probe())
            bad.append("oracle: probe exception did not come back out")
        except Probe:
            pass
        except BaseException as ex:
            bad.append("oracle: %r came out instead of the probe" % (ex,))
        path = [(f, ln) for (_, f, ln) in reversed(b.log)]
        if [p[0] for p in path] != [p[0] for p in frames_before]:
            bad.append("throw path has %d frames, extract gave %d (or other frame objects)" % (len(path), len(frames_before)))
        elif [p[1] for p in path] != [p[1] for p in frames_before]:
            bad.append("line numbers differ: throw %s extract %s" % ([p[1] for p in path], [p[1] for p in frames_before]))
    # ---- clean up everything we created
    for o in list(b.objs.values()):
        try:
            if hasattr(o, "aclose"):
                try:
                    o.aclose().send(None)
                except (StopIteration, StopAsyncIteration, RuntimeError):
                    pass
            else:
                o.close()
        except BaseException:
            pass
    traces = []
    for r in runs:
        if r.unbindable:
            continue
        traces.append(r.to_json())
    return {"bad": bad, "c16": c16, "traces": traces, "c16_traces": splice_traces, "nframes": len(frames_before)}


def run_running(case, b):
    """all links running; the innermost calls B.probe which extracts the root"""
    bad, c16 = [], []
    x = b.make(1)
    try:
        if b.k(1) == "agen":
            x.asend(None).send(None)
        else:
            x.send(None)
    except (StopIteration, StopAsyncIteration):
        pass
    st, wl = b.run_result
    if wl:
        bad.append("warnings: %s" % wl)
    if st.error is not None:
        bad.append("error: %r" % (st.error,))
    names = [fr.funcname for fr in st.frames if fr.funcname.endswith("_link")]
    want = [code_name(b.k(i)) for i in range(1, b.n + 1)]
    if names != want:
        bad.append("running frames: expected %s got %s" % (want, [fr.funcname for fr in st.frames]))
    if st.frames and st.frames[-1].funcname != "probe":
        bad.append("innermost frame is %s, not the caller of extract" % st.frames[-1].funcname)
    inherited, c16x = b.run_origin
    c16.extend(c16x)
    b.rec.take()
    for o in list(b.objs.values()):
        try:
            if hasattr(o, "aclose"):
                try:
                    o.aclose().send(None)
                except (StopIteration, StopAsyncIteration, RuntimeError):
                    pass
            else:
                o.close()
        except BaseException:
            pass
    return {"bad": bad, "c16": c16, "f5": inherited, "traces": b.run_traces, "nframes": len(st.frames)}


def origin_contract(st, label, out):
    """C16 on any extracted stack: a non-None origin is weak-referenceable and leads back to the frame"""
    import weakref
    for idx, fr in enumerate(st.frames):
        if fr.origin is None:
            continue
        try:
            weakref.ref(fr.origin)
            om = stackscope.extract_outermost(fr.origin)
            if om.pyframe is not fr.pyframe:
                out.append("%s: frame %d (%s): extract_outermost(origin).pyframe is another frame" % (label, idx, fr.funcname))
        except Exception as ex:
            out.append("%s: frame %d (%s): origin contract raised %r" % (label, idx, fr.funcname, ex))


def same_first(om, st):
    """extract_outermost(x) equals extract(x).frames[0]: same frame object, line, contexts and flags"""
    if not st.frames:
        return False
    f0 = st.frames[0]
    return (om.pyframe is f0.pyframe and om.lineno == f0.lineno and om.contexts == f0.contexts
            and bool(om.hide) == bool(f0.hide) and bool(om.hide_line) == bool(f0.hide_line))


def _hidden_gen():
    __tracebackhide__ = True
    yield 1


def _custom_hide():
    yield 1


def _custom_hide_line():
    yield from _parked()


def _elab_mark():
    yield 1


def other_items():
    """C16 beyond chains: threads, greenlets, custom stack items with and without frames, outermost frames that
    carry flags set by elaborate_frame hooks"""
    import threading
    bad = []
    n = 0
    # the outermost frame is one that a hook flags: __tracebackhide__, customize(hide / hide_line), a registered hook
    stackscope.customize(_custom_hide, hide=True)
    stackscope.customize(_custom_hide_line, hide_line=True)

    @stackscope.elaborate_frame.register(_elab_mark)
    def _mark(frame, next_inner):
        frame.hide = True
        frame.hide_line = True
        return None
    for label, fn, want in (("__tracebackhide__ generator", _hidden_gen, (True, False)),
                            ("customize(hide=True) generator", _custom_hide, (True, False)),
                            ("customize(hide_line=True) generator", _custom_hide_line, (False, True)),
                            ("generator with a registered elaborate_frame hook", _elab_mark, (True, True))):
        g = fn()
        next(g)
        n += 1
        st = stackscope.extract(g)
        if not st.frames or (bool(st.frames[0].hide), bool(st.frames[0].hide_line)) != want:
            bad.append("harness: %s: flags of frames[0] are not %s" % (label, want))
        try:
            om = stackscope.extract_outermost(g)
            if not same_first(om, st):
                bad.append("%s: extract_outermost differs from frames[0] (hide %s/%s hide_line %s/%s)" % (
                    label, om.hide, st.frames[0].hide, om.hide_line, st.frames[0].hide_line))
        except Exception as ex:
            bad.append("%s: extract_outermost raised %r" % (label, ex))
        g.close()
    ev, ready = threading.Event(), threading.Event()

    def tgen():
        yield from tinner()

    def tinner():
        ready.set()
        ev.wait(10)
        yield 1

    def body():
        g = tgen()
        next(g)
    # no frames, but recorded errors: extract_outermost re-raises what extract records -- one error as it is, several as
    # an ExceptionGroup of them
    class Failing:
        def __init__(self, tag):
            self.tag = tag

    class Holder:
        def __init__(self, n):
            self.n = n

    @stackscope.unwrap_stackitem.register(Failing)
    def _unwrap_failing(item):
        raise ValueError("cannot look inside %s" % item.tag)

    @stackscope.unwrap_stackitem.register(Holder)
    def _unwrap_holder(item):
        return [Failing("item-%d" % k) for k in range(item.n)]
    for nerr in (1, 2, 3):
        n += 1
        h = Holder(nerr)
        st = stackscope.extract(h)
        rec_ = st.error
        members = list(rec_.exceptions) if hasattr(rec_, "exceptions") else [rec_]
        if st.frames or rec_ is None or len(members) != nerr:
            bad.append("harness: %d failing items gave frames %s error %r" % (nerr, [f.funcname for f in st.frames], rec_))
            continue
        try:
            stackscope.extract_outermost(h)
            bad.append("%d recorded errors, no frames: extract_outermost returned" % nerr)
        except BaseException as ex:
            raised = list(ex.exceptions) if hasattr(ex, "exceptions") else [ex]
            if (hasattr(ex, "exceptions") != hasattr(rec_, "exceptions")
                    or [(type(e), str(e)) for e in raised] != [(type(e), str(e)) for e in members]):
                bad.append("no frames and %d recorded error(s): extract() records %r, extract_outermost() raised %r" % (nerr, rec_, ex))
    # the options of the call govern extract_outermost exactly as they govern extract: a manager hosting "child tasks"
    # (its elaborate_context hook calls extract_child(for_task=True)) in the outermost frame
    class Group:
        def __init__(self, kids):
            self.kids = kids

        def __bool__(self):
            return False

        def __enter__(self):
            return self

        def __exit__(self, *a):
            return False

    @stackscope.elaborate_context.register(Group)
    def _elab_group(mgr, context):
        context.children = [stackscope.extract_child(k, for_task=True) for k in mgr.kids]

    def hosting(kids):
        with Group(kids):
            yield 1
    kids = [_parked(), _parked()]
    for k in kids:
        next(k)
    hg = hosting(kids)
    next(hg)
    for wc in (True, False):
        for rct in (True, False):
            n += 1
            st = stackscope.extract(hg, with_contexts=wc, recurse_child_tasks=rct)
            try:
                om = stackscope.extract_outermost(hg, with_contexts=wc, recurse_child_tasks=rct)
            except Exception as ex:
                bad.append("options with_contexts=%s recurse_child_tasks=%s: extract_outermost raised %r" % (wc, rct, ex))
                continue
            if wc:
                kidsf = [len(c.frames) for c in st.frames[0].contexts[0].children] if st.frames[0].contexts else None
                if kidsf != ([1, 1] if rct else [0, 0]):
                    bad.append("harness: child stacks under recurse_child_tasks=%s have %s frames" % (rct, kidsf))
            elif st.frames[0].contexts:
                bad.append("harness: with_contexts=False left contexts")
            if not same_first(om, st):
                bad.append("with_contexts=%s recurse_child_tasks=%s: extract_outermost differs from frames[0] of extract with the "
                           "same options (contexts %s / %s)" % (wc, rct, [[len(k.frames) for k in c.children] for c in om.contexts],
                                                                [[len(k.frames) for k in c.children] for c in st.frames[0].contexts]))
    hg.close()
    for k in kids:
        k.close()
    th = threading.Thread(target=body, daemon=True)
    th.start()
    ready.wait(10)
    import time
    time.sleep(0.02)
    st = stackscope.extract(th)
    n += 1
    origin_contract(st, "parked thread", bad)
    try:
        f0 = stackscope.extract_outermost(th)
        if not same_first(f0, st):
            bad.append("parked thread: extract_outermost differs from frames[0] (object, line, contexts or flags)")
    except Exception as ex:
        bad.append("parked thread: extract_outermost raised %r" % (ex,))
    ev.set()
    th.join(5)
    for label, t in (("finished thread", th), ("unstarted thread", threading.Thread(target=body))):
        n += 1
        st = stackscope.extract(t)
        try:
            stackscope.extract_outermost(t)
            bad.append("%s: extract_outermost returned although extract has no frames" % label)
        except RuntimeError:
            pass
        except Exception as ex:
            bad.append("%s: extract_outermost raised %r" % (label, ex))
        if st.frames:
            bad.append("%s: has frames" % label)
    try:
        import greenlet

        def gbody():
            g = tgen2()
            next(g)

        def tgen2():
            greenlet.getcurrent().parent.switch()
            yield 1
        gl = greenlet.greenlet(gbody)
        gl.switch()
        st = stackscope.extract(gl)
        n += 1
        origin_contract(st, "suspended greenlet", bad)
        f0 = stackscope.extract_outermost(gl)
        if not same_first(f0, st):
            bad.append("suspended greenlet: extract_outermost differs from frames[0]")
        gl.throw(greenlet.GreenletExit)
        for label, g2 in (("dead greenlet", gl), ("unstarted greenlet", greenlet.greenlet(gbody))):
            n += 1
            try:
                stackscope.extract_outermost(g2)
                bad.append("%s: extract_outermost returned although there are no frames" % label)
            except RuntimeError:
                pass
    except ImportError:
        pass
    # custom items: with frames (a box around a parked generator's frame, and around the generator) and without
    pg = _parked()
    next(pg)
    for label, item in (("custom item holding a frame", FrameBox(pg.gi_frame)), ("custom item without frames", object()),
                        ("None as the item", None)):
        n += 1
        st = stackscope.extract(item)
        origin_contract(st, label, bad)
        try:
            f0 = stackscope.extract_outermost(item)
            if not same_first(f0, st):
                bad.append("%s: extract_outermost differs from frames[0]" % label)
        except RuntimeError:
            if st.frames:
                bad.append("%s: extract_outermost raised although there are frames" % label)
    pg.close()
    n += 1
    bad += overlapping_extractions()
    return n, bad


class _Rendezvous:
    """an item whose unwrapping lets ANOTHER thread get inside an extraction of its own (with other options) and waits
    until it is there"""

    def __init__(self, gen):
        self.gen = gen
        self.other_inside = threading.Event()
        self.done = threading.Event()
        self.thread = None


class _Holding:
    def __init__(self, rv):
        self.rv = rv


@stackscope.unwrap_stackitem.register(_Rendezvous)
def _unwrap_rendezvous(item):
    if item.thread is None:
        def second():
            g = _with_ctx()
            next(g)
            stackscope.extract(_Holding(item), with_contexts=False)
            stackscope.extract(g, with_contexts=False)
        item.thread = threading.Thread(target=second, daemon=True)
        item.thread.start()
        item.other_inside.wait(10)
    return item.gen


@stackscope.unwrap_stackitem.register(_Holding)
def _unwrap_holding(item):
    item.rv.other_inside.set()
    item.rv.done.wait(10)
    return None


class _Ctx:
    def __enter__(self):
        return self

    def __exit__(self, *a):
        return False


def _with_ctx():
    with _Ctx() as c:  # noqa: F841
        yield 1


def overlapping_extractions():
    """extract_outermost(x) while another thread is inside extract(y, with_contexts=False): x's first frame is still the
    one extract(x) gives, contexts included"""
    bad = []
    g = _with_ctx()
    next(g)
    rv = _Rendezvous(g)
    try:
        om = stackscope.extract_outermost(rv)
    except Exception as ex:
        om = None
        bad.append("extract_outermost overlapping another thread's extraction raised %r" % (ex,))
    rv.done.set()
    if rv.thread is not None:
        rv.thread.join(10)
    st = stackscope.extract(g)
    if om is not None and not same_first(om, st):
        bad.append("extract_outermost(x), overlapping another thread's extract(y, with_contexts=False), differs from "
                   "extract(x).frames[0]: contexts %r vs %r" % (om.contexts, st.frames[0].contexts if st.frames else None))
    g.close()
    return bad


HISTORY = []


def pollute_history(n=1):
    """C03 must hold whatever was extracted BEFORE: a handful of async generators are driven through asend() /
    athrow() awaitables that get extracted and then freed, while the generators themselves stay alive, parked at a
    yield, for the rest of the run (anything the library remembers about those short-lived awaitables -- by id, say --
    is stale by the time the cases run; CPython recycles their addresses)."""
    @types.coroutine
    def trap():
        yield "history-trap"

    async def numbers(tag):
        await trap()
        yield tag
        await trap()
        yield tag + 1

    async def pull(ag):
        return await ag.asend(None)

    for k in range(n):
        ag = numbers(k)
        co = pull(ag)
        co.send(None)                       # suspended in ag's asend() awaitable, inside numbers at its first trap
        stackscope.extract(co)
        stackscope.extract_outermost(co)
        try:
            co.send(None)                   # numbers yields: the awaitable completes and is freed
        except StopIteration:
            pass
        del co
        HISTORY.append(ag)                  # ... but the generator lives on, parked at its yield
    # (no gc.collect() here: a full collection empties the interpreter's free lists, and with them the address reuse)
    del HISTORY[:-40]


def main():
    data = json.load(open(sys.argv[1]))
    pollute_history(3)
    rec = rec_m1.Recorder()
    rec.install()
    out = []
    with warnings.catch_warnings():
        warnings.simplefilter("ignore", RuntimeWarning)
        for idx, case in enumerate(data["cases"]):
            case["salt"] = idx
            try:
                pollute_history(1)          # right before every chain is built (see pollute_history)
                rec.take()                  # the recordings of those extractions are not this chain's
                rec.stack[:] = []
                r = run_chain(case, rec)
            except BaseException as ex:
                import traceback
                r = {"skip": "harness exception: %s" % traceback.format_exc()[-800:]}
            r["idx"] = idx
            out.append(r)
            rec.stack[:] = []
    gc.collect()
    rec.uninstall()
    n, bad = other_items()
    out.append({"idx": -1, "other_items": n, "bad": [], "c16": bad, "traces": []})
    json.dump(out, open(sys.argv[2], "w"))


if __name__ == "__main__":
    main()
