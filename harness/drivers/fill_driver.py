"""Replay driver for M2 (FillContext): installs given hook tables on synthetic manager types and on real
@contextmanager functions (with / without a registered unwrap_context_generator), calls fill_context outside and
inside an extraction, and compares the final Context and the hook call log with the specification's.
stdlib-only.   usage: fill_driver.py <cases.json> <out.json>"""
import contextlib
import json
import sys
import warnings

import stackscope
from stackscope import Context, _extract

N = 4
TABLE = {"case": None}
LOG = []


class SM:
    """plain managers are FALSY (an empty pool, say): hook results must be told apart by identity with None / PRUNE"""

    def __init__(self, i):
        self.i = i

    def __len__(self):
        return 0

    def __enter__(self):
        return self

    def __exit__(self, *a):
        return False

    def __repr__(self):
        return "SM%d" % self.i


class Hold:
    """the manager a generator-based manager's own generator holds (no hooks registered for it)"""

    def __bool__(self):
        return False

    def __enter__(self):
        return self

    def __exit__(self, *a):
        return False


def _drive(coro):
    try:
        coro.send(None)
    except StopIteration as ex:
        return ex.value
    raise RuntimeError("harness: the coroutine suspended")


class World:
    def __init__(self):
        self.plain = {i: SM(i) for i in range(1, N + 1)}
        self.gcm_fn, self.gcm_unreg_fn = {}, {}
        # every generator-based manager's generator holds a manager of its own around its yield: the frame handed to an
        # unwrap_context_generator hook must show it (hooks such as pytest-trio's choose their result from frame.contexts)
        self.hold = {i: Hold() for i in range(1, N + 1)}
        ns = {"contextlib": contextlib, "HOLD": self.hold}
        for i in range(1, N + 1):
            for pre in ("g", "h"):
                if i % 2:
                    exec("@contextlib.contextmanager\ndef %s%d():\n    with HOLD[%d]:\n        yield %d\n" % (pre, i, i, i), ns)
                else:
                    # even ids: made by @asynccontextmanager -- yet reached (through unwrap results) from a context whose
                    # with statement is synchronous: the flavour of a replacement manager is its own
                    exec("@contextlib.asynccontextmanager\nasync def %s%d():\n    with HOLD[%d]:\n        yield %d\n" % (pre, i, i, i), ns)
            self.gcm_fn[i] = ns["g%d" % i]
            self.gcm_unreg_fn[i] = ns["h%d" % i]
            stackscope.unwrap_context_generator.register(ns["g%d" % i])(self.make_ucg(i))
        self.live = {}

    def make_ucg(self, i):
        def hook(frame, context):
            case = TABLE["case"]
            LOG.append(["UG-inner" if context.inner_stack is not None else "UG-outermost", i])
            if frame.pyframe.f_lasti >= 0 and [c.obj for c in frame.contexts] != [self.hold[i]]:
                LOG.append(["UG-frame-lacks-its-contexts", i])
            return self.result(case, i)
        return hook

    def result(self, case, i):
        r = case["U"][i - 1]
        if r == "none" or r == "unreg":
            return None
        if r == "prune":
            return stackscope.PRUNE
        return self.obj(case, case["Unext"][i - 1])

    def obj(self, case, i):
        if case["kind"][i - 1] == "plain":
            return self.plain[i]
        if i not in self.live:
            fn = self.gcm_unreg_fn[i] if case["U"][i - 1] == "unreg" else self.gcm_fn[i]
            cm = fn()
            if hasattr(cm, "__aenter__"):
                _drive(cm.__aenter__())
            else:
                cm.__enter__()
            self.live[i] = cm
        return self.live[i]

    def ident(self, o):
        if isinstance(o, SM):
            return o.i
        for i, cm in self.live.items():
            if cm is o:
                return i
        return -1

    def cleanup(self):
        for cm in self.live.values():
            try:
                if hasattr(cm, "__aexit__"):
                    _drive(cm.__aexit__(None, None, None))
                else:
                    cm.__exit__(None, None, None)
            except BaseException:
                pass
        self.live = {}


WORLD = World()


@stackscope.elaborate_context.register(SM)
def _elab_sm(mgr, context):
    case = TABLE["case"]
    e = case["E"][mgr.i - 1]
    if e == "desc":
        context.description = "desc%d" % mgr.i
    elif e == "children":
        context.children = [Context(obj=mgr, is_async=False, description="child-of-%d" % mgr.i)]
    elif e == "inner":
        context.inner_stack = stackscope.Stack(root=mgr, frames=[])
    elif e == "obj":
        context.obj = WORLD.obj(case, case["Eobj"][mgr.i - 1])


@stackscope.unwrap_context.register(SM)
def _unwrap_sm(mgr, context):
    return WORLD.result(TABLE["case"], mgr.i)


def install_logging():
    o_e, o_u = _extract.elaborate_context, _extract.unwrap_context

    def e(mgr, context):
        if isinstance(mgr, (Hold, FailsToElaborate)):
            return o_e(mgr, context)          # the generators' own managers are not part of the modelled chain
        LOG.append(["E", WORLD.ident(mgr), context.inner_stack is not None, bool(context.children)])
        return o_e(mgr, context)

    def u(mgr, context):
        if isinstance(mgr, (Hold, FailsToElaborate)):
            return o_u(mgr, context)
        LOG.append(["U", WORLD.ident(mgr), context.inner_stack is not None, bool(context.children)])
        return o_u(mgr, context)

    _extract.elaborate_context = e
    _extract.unwrap_context = u


class Trigger:
    """stack item whose unwrap hook calls fill_context (== from inside an extraction)"""

    def __init__(self, fn):
        self.fn = fn


@stackscope.unwrap_stackitem.register(Trigger)
def _unwrap_trigger(t):
    t.fn()
    return None


def run_fill(case, inside):
    TABLE["case"] = case
    del LOG[:]
    ctx = Context(obj=WORLD.obj(case, case["start"]), is_async=False, is_exiting=case["exiting"])
    res = {}

    def go():
        try:
            stackscope.fill_context(ctx)
            res["err"] = False
        except RuntimeError as ex:
            res["err"] = "unwrapped more than 100 times" in str(ex)
            res["errtext"] = str(ex)[:120]
        except BaseException as ex:
            res["err"] = "other: %r" % (ex,)
    with warnings.catch_warnings():
        warnings.simplefilter("ignore")
        if inside:
            st = stackscope.extract(Trigger(go), with_contexts=True, recurse_child_tasks=False)
            if st.error is not None:
                res["outer_error"] = repr(st.error)
        else:
            go()
    return finish(res, ctx)


def finish(res, ctx):
    # normalise the log: a U entry followed by a UG entry (the glue calling the registered hook) merges into the UG label
    calls = []
    snaps = []
    for ent in LOG:
        if ent[0] in ("UG-inner", "UG-outermost"):
            if calls and calls[-1][0] == "U" and calls[-1][1] == ent[1]:
                calls[-1] = [ent[0], ent[1]]
            else:
                calls.append([ent[0], ent[1]])
        else:
            calls.append([ent[0], ent[1]])
            snaps.append(ent)
    # the extra call the guard makes for its message
    if res.get("err") is True and calls and calls[-1][0] in ("U", "UG-inner", "UG-outermost"):
        calls[-1][0] = "U-msg"
    res["calls"] = calls
    res["reelab_clean"] = all(not (s[2] or s[3]) for s in snaps[1:] if s[0] == "E")
    res["obj"] = WORLD.ident(ctx.obj)
    inner = ctx.inner_stack
    if inner is None:
        res["inner"] = 0
    else:
        root = inner.root
        res["inner"] = WORLD.ident(root) if isinstance(root, SM) else next((i for i, cm in WORLD.live.items() if cm.gen is root), -1)
    ch = ctx.children
    res["children"] = ch[0].obj.i if ch else 0
    res["hide"] = bool(ctx.hide)
    d = ctx.description
    if d is None:
        res["desc"] = 0
    elif d.startswith("desc"):
        res["desc"] = int(d[4:])
    else:
        # the contextlib glue's description of a generator-based manager: "<qualname>(...)" or "module.gN()"
        import re
        m = re.search(r"[gh](\d)\b", d)
        res["desc"] = int(m.group(1)) if m else -1
    return res


class FailsToElaborate:
    """a healthy manager whose elaboration raises: the FIRST context of the frame in 'frame' mode"""

    def __bool__(self):
        return False

    def __enter__(self):
        return self

    def __exit__(self, *a):
        return False


class ElabFailure(Exception):
    pass


@stackscope.elaborate_context.register(FailsToElaborate)
def _elab_fails(mgr, context):
    raise ElabFailure("the first context of the frame cannot be elaborated")


def run_in_frame(case):
    """the same chain, but reached the ordinary way: the manager is the SECOND context of a real frame whose first
    context's elaboration fails -- every context of a frame is filled in on its own"""
    TABLE["case"] = case
    del LOG[:]
    mgr = WORLD.obj(case, case["start"])

    def holder():
        with FailsToElaborate(), mgr:
            yield 1
    g = holder()
    next(g)
    res = {}
    try:
        with warnings.catch_warnings():
            warnings.simplefilter("ignore")
            st = stackscope.extract(g, with_contexts=True)
        errs = []
        if st.error is not None:
            errs = list(st.error.exceptions) if hasattr(st.error, "exceptions") else [st.error]
        if not any(isinstance(e, ElabFailure) for e in errs):
            res["outer_error"] = "the first context's failure is not in Stack.error (%r)" % (st.error,)
        others = [e for e in errs if not isinstance(e, ElabFailure)]
        guard = [e for e in others if "unwrapped more than 100 times" in str(e)]
        res["err"] = True if guard else False
        if [e for e in others if e not in guard]:
            res["outer_error"] = "unexpected errors %r" % (others,)
        ctxs = st.frames[0].contexts
        if len(ctxs) != 2:
            res["outer_error"] = "the frame has %d contexts" % len(ctxs)
            ctx = Context(obj=None, is_async=False)
        else:
            ctx = ctxs[1]
        return finish(res, ctx)
    finally:
        g.close()


def compare(exp, got):
    bad = []
    for k in ("obj", "inner", "children", "hide", "desc"):
        if exp[k] != got[k]:
            bad.append("%s: spec %s real %s" % (k, exp[k], got[k]))
    if bool(exp["err"]) != (got["err"] is True):
        bad.append("guard error: spec %s real %s %s" % (exp["err"], got["err"], got.get("errtext", "")))
    if [list(c) for c in exp["calls"]] != got["calls"]:
        bad.append("hook calls: spec %s real %s" % (exp["calls"][:12], got["calls"][:12]))
    if not got["reelab_clean"]:
        bad.append("a re-elaboration saw a context whose inner_stack / children were not reset")
    if "outer_error" in got:
        bad.append("enclosing extraction recorded %s" % got["outer_error"])
    return bad


def exit_stack_children():
    """'for EVERY context': the child contexts an exit stack's glue builds go through the same elaborate / unwrap loop,
    whether they stand for an entered manager or for a bare exit callback (a callable object pushed on the stack)"""
    seen = []

    class Resource:
        def __bool__(self):
            return False

    class Closer:
        def __init__(self, res):
            self.res = res

        def __call__(self, *exc):
            return False

    @stackscope.unwrap_context.register(Closer)
    def _unwrap_closer(mgr, context):
        seen.append("unwrap Closer")
        return mgr.res

    @stackscope.elaborate_context.register(Resource)
    def _elab_resource(mgr, context):
        seen.append("elaborate Resource")
        context.description = "the resource behind the closer"
    bad = []
    for inside in (False, True):
        del seen[:]
        res = Resource()
        es = contextlib.ExitStack()
        es.push(Closer(res))
        ctx = Context(obj=es, is_async=False)

        def go():
            stackscope.fill_context(ctx)
        if inside:
            stackscope.extract(Trigger(go), with_contexts=True)
        else:
            go()
        kids = list(ctx.children)
        if len(kids) != 1 or kids[0].obj is not res or "the resource behind the closer" not in (kids[0].description or "") \
                or seen != ["unwrap Closer", "elaborate Resource"]:
            bad.append("ExitStack child for a pushed callable object (inside an extraction: %s): obj %s, description %r, hooks %s; "
                       "expected the unwrap_context hook of its type, then the elaboration of what it returned"
                       % (inside, type(kids[0].obj).__name__ if kids else None, kids[0].description if kids else None, seen))
        es.close()
    return bad


def main():
    data = json.load(open(sys.argv[1]))
    install_logging()
    out = {"n": 0, "mismatches": []}
    for b in exit_stack_children():
        out["mismatches"].append({"tid": 0, "inside": "-", "bad": [b], "case": {}})
    out["n"] += 2
    for case in data["cases"]:
        results = []
        for inside in (False, True):
            got = run_fill(case, inside)
            bad = compare(case["expect"], got)
            results.append(got)
            if bad:
                out["mismatches"].append({"tid": case["tid"], "inside": inside, "bad": bad, "case": {k: case[k] for k in ("kind", "E", "Eobj", "U", "Unext", "start", "exiting")}})
            WORLD.cleanup()
            out["n"] += 1
        if not case["exiting"] and case["kind"][case["start"] - 1] == "plain":
            got = run_in_frame(case)
            bad = compare(case["expect"], got)
            if bad:
                out["mismatches"].append({"tid": case["tid"], "inside": "as the second context of a frame whose first context fails to elaborate", "bad": bad,
                                          "case": {k: case[k] for k in ("kind", "E", "Eobj", "U", "Unext", "start", "exiting")}})
            WORLD.cleanup()
            out["n"] += 1
        a, b = results
        if {k: a[k] for k in ("obj", "inner", "children", "hide", "desc", "calls", "err")} != {k: b[k] for k in ("obj", "inner", "children", "hide", "desc", "calls", "err")}:
            out["mismatches"].append({"tid": case["tid"], "inside": "both", "bad": ["fill_context outside an extraction differs from inside one"], "case": case})
    json.dump(out, open(sys.argv[2], "w"))


if __name__ == "__main__":
    main()
