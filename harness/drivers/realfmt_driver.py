"""Real-stack corpus for M10 (C18 + C19): instead of hand-built Stack objects, this driver EXTRACTS stacks from live
scenarios (generator chains with nested with-blocks, @contextmanager inner stacks, ExitStacks with children, exiting
managers, hidden frames / hide_line, hidden (PRUNEd) contexts also as ExitStack children, recorded errors also in inner
stacks, a leaf, a blocked thread; under Trio: task trees with child task stacks, stub and populated), converts each
extracted Stack into the abstract tree encoding of Format.tla and renders it with every option set.  The props module
then lets TLC compute Fmt / Entries for those trees and compares.   stdlib-only except the optional Trio part.
usage: realfmt_driver.py <out.json>"""
import contextlib
import json
import sys
import threading
import traceback
import warnings

import stackscope
from stackscope import Context, Stack

NONE_STACK = {"t": "none", "root": False, "frames": [], "leaf": False, "error": 0}


class Conv:
    """real Stack -> abstract tree (ids handed out in traversal order; the real objects are remembered by id)"""

    def __init__(self):
        self.fid = 0
        self.cid = 0
        self.frames = {}
        self.ctxs = {}

    def stack(self, st):
        nerr = 0
        if st.error is not None:
            for line in traceback.format_exception(type(st.error), st.error, st.error.__traceback__):
                if line != "Traceback (most recent call last):\n":
                    nerr += len(line.splitlines(True))
        return {"t": "stack", "root": st.root is not None, "frames": [self.frame(f) for f in st.frames],
                "leaf": st.leaf is not None, "error": nerr}

    def frame(self, f):
        self.fid += 1
        i = self.fid
        self.frames[i] = f
        return {"id": i, "hide": bool(f.hide), "line": bool(f.linetext), "ctxs": [self.ctx(c) for c in f.contexts]}

    def ctx(self, c):
        self.cid += 1
        i = self.cid
        self.ctxs[i] = c
        kids = []
        for ch in c.children:
            if isinstance(ch, Context):
                kids.append({"t": "ctx", "ctx": self.ctx(ch), "st": dict(NONE_STACK)})
            else:
                kids.append({"t": "stack", "st": self.stack(ch)})
        return {"id": i, "exiting": bool(c.is_exiting), "hide": bool(c.hide), "sl": c.start_line is not None,
                "inner": self.stack(c.inner_stack) if c.inner_stack is not None else dict(NONE_STACK), "children": kids}


# ------------------------------------------------------------------ scenarios
class PM:
    def __init__(self, tag):
        self.tag = tag

    def __bool__(self):
        return False

    def __enter__(self):
        return self

    def __exit__(self, *a):
        return False

    def __repr__(self):
        return "<PM %s>" % self.tag


class Hidden(PM):
    pass


@stackscope.unwrap_context.register(Hidden)
def _prune_hidden(mgr, context):
    return stackscope.PRUNE


class APM:
    def __init__(self, tag, trap=None):
        self.tag, self.trap = tag, trap

    async def __aenter__(self):
        return self

    async def __aexit__(self, *a):
        if self.trap:
            await self.trap()
        return False


class Trap:
    def __await__(self):
        yield "trap"


class Bad:
    """an item whose unwrapping fails"""


@stackscope.unwrap_stackitem.register(Bad)
def _unwrap_bad(item):
    # (a message of several lines, one of which looks like the header of a traceback: a wrapped remote traceback)
    raise ValueError("cannot look inside\nTraceback (most recent call last):\n  this item")


class Iter:
    def __iter__(self):
        return self

    def __next__(self):
        return 1

    def __len__(self):
        return 0


def inner_leaf():
    with PM("leafy"):
        yield from Iter()


def g3():
    with PM("c"):
        yield 3


def recursive(n):
    if n:
        yield from recursive(n - 1)
    else:
        yield 0


def unicode_gen():
    with PM("na\u00efve \u2713"):
        yield "caf\u00e9 \u2014 \u2713 \u65e5\u672c"      # text outside ASCII in the source line, the manager's repr, the leaf


def g2():
    with PM("b1") as b1, PM("b2"):  # noqa: F841
        yield from g3()


def g1():
    with PM("a"):
        yield from g2()


@contextlib.contextmanager
def cm_inner(tag):
    with PM("in-" + tag):
        yield tag


@contextlib.contextmanager
def cm_outer(tag):
    with cm_inner(tag + "'") as t, PM("o-" + tag):  # noqa: F841
        yield tag


def with_gcms():
    with cm_outer("x") as x, PM("plain"):  # noqa: F841
        yield 1


@contextlib.contextmanager
def cm_bad():
    yield from [Bad()]        # never reached: the generator is suspended at the yield of the list iterator


def with_exitstack(hidden_child):
    with contextlib.ExitStack() as es:
        es.enter_context(cm_outer("e"))
        es.push(lambda *exc: False)
        es.callback(divmod, 7, 2)
        if hidden_child:
            es.enter_context(Hidden("h"))
        with contextlib.ExitStack() as es2:
            es2.enter_context(PM("nested"))
            es.push(es2.pop_all())
        yield 1


def hidden_frame_gen():
    __tracebackhide__ = True
    with PM("hf"):
        yield from g3()


def no_line_gen():
    yield from hidden_frame_gen()


stackscope.customize(no_line_gen, hide_line=True)


async def exiting_coro():
    async with APM("x1"):
        async with APM("x2", trap=Trap):
            pass


class ErrItem:
    """unwraps to a generator followed by an item whose unwrapping fails: frames, then a recorded error"""


@stackscope.unwrap_stackitem.register(ErrItem)
def _unwrap_erritem(item):
    return [item.gen, Bad()]


def hidden_ctx_gen():
    with PM("v"), Hidden("top-level hidden"):
        yield 1


class InnerErrMgr(PM):
    pass


@stackscope.elaborate_context.register(InnerErrMgr)
def _elab_inner_err(mgr, context):
    e = ErrItem()
    e.gen = mgr.gen
    context.inner_stack = stackscope.extract_child(e, for_task=False)


def inner_error_gen():
    m = InnerErrMgr("ie")
    m.gen = g3()
    next(m.gen)
    with m:
        yield 1


def scenarios():
    out = []

    def gen_case(label, fn, *a):
        g = fn(*a)
        next(g)
        out.append((label, g, lambda: stackscope.extract(g)))
    gen_case("recursive generator, seven frames on one line", recursive, 6)
    gen_case("generator chain with nested with blocks", g1)
    gen_case("source text and reprs outside ASCII", unicode_gen)
    gen_case("@contextmanager inner stacks, two deep", with_gcms)
    gen_case("ExitStack with GCM / push / callback / nested stack", with_exitstack, False)
    gen_case("ExitStack with a hidden (PRUNEd) child context", with_exitstack, True)
    gen_case("hidden frame and hide_line frame", no_line_gen)
    gen_case("chain ending in a falsy iterator leaf", inner_leaf)
    gen_case("hidden top-level context", hidden_ctx_gen)
    gen_case("error recorded in an inner stack", inner_error_gen)
    co = exiting_coro()
    co.send(None)
    out.append(("coroutine suspended inside __aexit__", co, lambda: stackscope.extract(co)))
    e = ErrItem()
    e.gen = g1()
    next(e.gen)
    out.append(("frames followed by a recorded error", e, lambda: stackscope.extract(e)))
    out.append(("an item without frames, with an error", None, lambda: stackscope.extract(Bad())))
    ev, ready = threading.Event(), threading.Event()

    def tbody():
        with PM("t"):
            ready.set()
            ev.wait(20)
    th = threading.Thread(target=tbody, daemon=True)
    th.start()
    ready.wait(10)
    import time
    time.sleep(0.02)
    out.append(("blocked thread", (th, ev), lambda: stackscope.extract(th)))
    return out


def trio_scenarios(emit):
    try:
        import trio
        import trio.testing
    except ImportError:
        return

    async def leaf_task(ev):
        with PM("lt"):
            await ev.wait()

    async def mid_task(ev):
        async with trio.open_nursery() as n:
            n.start_soon(leaf_task, ev)
            n.start_soon(leaf_task, ev)
            await ev.wait()

    async def main():
        ev = trio.Event()
        async with trio.open_nursery() as top:
            top.start_soon(mid_task, ev)
            top.start_soon(leaf_task, ev)
            await trio.testing.wait_all_tasks_blocked()
            me = trio.lowlevel.current_task()
            for rec in (True, False):
                # the calling task is running: look at its children through the nursery it holds
                kids = list(top.child_tasks)
                for k in kids:
                    emit("trio task (recurse_child_tasks=%s)" % rec, lambda k=k, rec=rec: stackscope.extract(k, recurse_child_tasks=rec))
            ev.set()
    trio.run(main)


def error_text_complete(err, lines):
    """every line of the message of the recorded error (of each of them, for a group) is in the rendering"""
    shown = [ln.strip() for ln in lines]
    errs = list(getattr(err, "exceptions", None) or [err])
    return all(any(ln.endswith(ml.strip()) for ln in shown) for e in errs for ml in str(e).splitlines() if ml.strip())


def str_under_stdouts(st, uni):
    """str(x) is the concatenation of format(), whatever sys.stdout happens to be"""
    import io
    saved = sys.stdout
    ok = True
    try:
        for mk in (lambda: saved, io.StringIO, lambda: io.TextIOWrapper(io.BytesIO(), encoding="latin-1"), lambda: None):
            sys.stdout = mk()
            ok = ok and str(st) == "".join(uni)
            for f in st.frames[:3]:
                ok = ok and str(f) == "".join(f.format())
                for c in f.contexts[:2]:
                    ok = ok and str(c) == "".join(c.format())
    finally:
        sys.stdout = saved
    return ok


def render(label, st, out):
    conv = Conv()
    tree = conv.stack(st)
    case = {"label": label, "tree": tree, "renderings": []}
    for sc in (False, True):
        for sh in (False, True):
            uni = st.format(show_contexts=sc, show_hidden_frames=sh)
            asc = st.format(ascii_only=True, show_contexts=sc, show_hidden_frames=sh)
            summ = list(st.as_stdlib_summary(show_contexts=sc, show_hidden_frames=sh))
            flat_ok = True
            if not sh:
                # C19: format_flat() is the header + the STANDARD rendering of that summary (StackSummary.format(), which
                # folds runs of identical entries: recursion) + the leaf and error lines
                flat = st.format_flat(show_contexts=sc)
                expect = [uni[0]] + (list(st.as_stdlib_summary(show_contexts=sc).format()) if st.frames else [])
                if st.leaf is not None:
                    expect.append("  Target of innermost frame: %r\n" % (st.leaf,))
                flat_ok = flat[:len(expect)] == expect and (
                    (st.error is None and len(flat) == len(expect)) or
                    (st.error is not None and flat[len(expect):len(expect) + 1] == ["  Error while extracting stack:\n"]
                     and error_text_complete(st.error, flat[len(expect) + 1:])))
            r = {"ctx": sc, "hidden": sh, "uni": uni, "asc": asc, "flat_ok": flat_ok,
                 "summary": [[e.filename, e.lineno, e.name] for e in summ],
                 "str_is_join": str_under_stdouts(st, uni) if (sc and not sh) else True}
            case["renderings"].append(r)
    case["frame_attrs"] = {str(i): [f.filename, f.lineno, f.funcname, f.linetext] for i, f in conv.frames.items()}
    case["ctx_lines"] = {str(i): c.start_line for i, c in conv.ctxs.items()}
    out.append(case)


def main():
    out = []
    with warnings.catch_warnings():
        warnings.simplefilter("ignore")
        keep = []
        for label, obj, fn in scenarios():
            keep.append(obj)
            render(label, fn(), out)
        for k in keep:
            if isinstance(k, tuple):
                k[1].set()
        trio_scenarios(lambda label, fn: render(label, fn(), out))
    json.dump({"cases": out}, open(sys.argv[1], "w"))


if __name__ == "__main__":
    main()
