"""Replay driver for Backport.tla: every chain TLC enumerated over {coro, native async generator, async_generator-backport
generator} is BUILT for real, driven to its suspension and extracted; the frames (user frames by identity of their link,
library frames by kind, each with its hide flag) and the leaf are compared with the specification's, and the user frames
with the path a thrown exception really takes.  Needs the async_generator package: the project venv (3.12) only.
usage: backport_driver.py <cases.json> <out.json>"""
import json
import sys
import types
import warnings

import async_generator
from async_generator import async_generator as bp_agen, yield_, yield_from_

import stackscope

IMPL = async_generator._impl.__file__


class Probe(Exception):
    pass


class Probe2(Exception):
    pass


class PlainIter:
    def __iter__(self):
        return self

    def __next__(self):
        return "leaf"

    def __len__(self):
        return 0            # a falsy leaf

    def send(self, v):
        return "leaf"

    def throw(self, *a):
        raise a[0] if not isinstance(a[0], type) else a[0]()

    def close(self):
        pass


class AwaitIter:
    def __init__(self, it):
        self.it = it

    def __await__(self):
        return self.it


@types.coroutine
def trap():
    yield "trap"


class B:
    def __init__(self, chain, term):
        self.chain, self.term, self.n = chain, term, len(chain)
        self.objs, self.log, self.leaf, self.keep = {}, [], None, []

    def k(self, i):
        return self.chain[i - 1]["k"]

    def via(self, i):
        return self.chain[i - 1]["via"]

    def note(self, i):
        self.log.append(i)

    def make(self, i):
        o = {"coro": coro_link, "agen": agen_link, "bagen": bagen_link}[self.k(i)](self, i)
        self.objs[i] = o
        return o

    def mode(self, i):
        if i == self.n:
            return self.term
        return self.via(i + 1)

    def end(self):
        """the awaitable the last link waits on"""
        if self.term == "trap":
            return trap()
        self.leaf = PlainIter()
        a = AwaitIter(self.leaf)
        self.keep.append(a)
        return a


# the three link kinds; `i` is a local of every link frame (that is how frames are attributed to links)
async def coro_link(b, i):
    try:
        m = b.mode(i)
        if m in ("trap", "iter"):
            await b.end()
        elif m == "await":
            await b.make(i + 1)
        elif m == "anext":
            await b.make(i + 1).__anext__()
        elif m == "asend":
            await b.make(i + 1).asend(None)
        elif m == "asyncfor":
            async for _ in b.make(i + 1):
                pass
        elif m == "athrow":
            g = b.make(i + 1)
            await g.asend(None)
            await g.athrow(Probe2())
        elif m == "aclose":
            g = b.make(i + 1)
            await g.asend(None)
            await g.aclose()
        else:
            raise AssertionError(m)
    except BaseException:
        b.note(i)
        raise


async def agen_link(b, i):
    try:
        via = b.via(i)
        if via in ("athrow", "aclose"):
            try:
                yield "pre"
            except (Probe2, GeneratorExit):
                pass
        m = b.mode(i)
        if m == "own":
            yield "own"
        elif m in ("trap", "iter"):
            await b.end()
        elif m == "await":
            await b.make(i + 1)
        elif m == "anext":
            await b.make(i + 1).__anext__()
        elif m == "asend":
            await b.make(i + 1).asend(None)
        elif m == "asyncfor":
            async for _ in b.make(i + 1):
                pass
        elif m == "athrow":
            g = b.make(i + 1)
            await g.asend(None)
            await g.athrow(Probe2())
        elif m == "aclose":
            g = b.make(i + 1)
            await g.asend(None)
            await g.aclose()
        else:
            raise AssertionError(m)
        if via != "aclose":
            yield "post"
    except BaseException:
        b.note(i)
        raise


@bp_agen
async def bagen_link(b, i):
    try:
        via = b.via(i)
        if via in ("athrow", "aclose"):
            try:
                await yield_("pre")
            except (Probe2, GeneratorExit):
                pass
        m = b.mode(i)
        if m == "own":
            await yield_("own")
        elif m in ("trap", "iter"):
            await b.end()
        elif m == "await":
            await b.make(i + 1)
        elif m == "anext":
            await b.make(i + 1).__anext__()
        elif m == "asend":
            await b.make(i + 1).asend(None)
        elif m == "asyncfor":
            async for _ in b.make(i + 1):
                pass
        elif m == "athrow":
            g = b.make(i + 1)
            await g.asend(None)
            await g.athrow(Probe2())
        elif m == "aclose":
            g = b.make(i + 1)
            await g.asend(None)
            await g.aclose()
        elif m == "yf":
            await yield_from_(b.make(i + 1))
        else:
            raise AssertionError(m)
        if via != "aclose":
            await yield_("post")
    except BaseException:
        b.note(i)
        raise


LINK_CODES = {coro_link.__code__: "coro", agen_link.__code__: "agen"}


def classify(fr):
    """(tag, link index or 0) of a reported frame"""
    code = fr.pyframe.f_code
    loc = fr.pyframe.f_locals
    if code in LINK_CODES or (code.co_name == "bagen_link" and code.co_filename == __file__):
        return "link", loc.get("i")
    if code is trap.__code__ or (code.co_name == "trap" and code.co_filename == __file__):
        return "trap", 0
    if code.co_filename == IMPL:
        return {"step": "step", "aclose": "aclose", "yield_from_": "yf", "yield_": "yield", "_yield_": "ytrap"}.get(code.co_name, "lib:" + code.co_name), 0
    return "other:" + code.co_name, 0


def run_case(case):
    chain, term = case["chain"], case["term"]
    b = B(chain, term)
    x = b.make(1)
    rootk = b.k(1)
    aw = None
    try:
        if rootk == "coro":
            x.send(None)
        else:
            aw = x.asend(None)
            aw.send(None)
        stopped = False
    except (StopIteration, StopAsyncIteration):
        stopped = True
    if stopped != (term == "own"):
        return {"skip": "harness: chain %s instead of %s" % ("finished a step" if stopped else "suspended", term)}
    bad = []
    with warnings.catch_warnings(record=True) as wl:
        warnings.simplefilter("always")
        st = stackscope.extract(x)
        st2 = stackscope.extract(x, with_contexts=False)
    if wl:
        bad.append("warnings: %s" % [str(w.message)[:120] for w in wl])
    if st.error is not None:
        bad.append("error: %r" % (st.error,))
    got = []
    for fr in st.frames:
        tag, link = classify(fr)
        got.append([tag, link if tag == "link" else 0, bool(fr.hide)])
    exp = [[e["tag"], e["link"] if e["tag"] == "link" else 0, bool(e["hide"])] for e in case["frames"]]
    if got != exp:
        bad.append("frames [tag, link, hidden]: spec %s, stackscope %s" % (exp, got))
    if [f.pyframe for f in st2.frames] != [f.pyframe for f in st.frames] or st2.leaf is not st.leaf:
        bad.append("with_contexts=False gives different frames")
    if case["leaf"] == "iter":
        if st.leaf is not b.leaf:
            bad.append("leaf: expected the plain iterator, got %r" % (st.leaf,))
    elif st.leaf is not None:
        bad.append("leaf: expected None, got %r" % (st.leaf,))
    if st.root is not x:
        bad.append("root is not x")
    # every user frame is the frame of the link object it belongs to
    for fr in st.frames:
        tag, link = classify(fr)
        if tag == "link":
            o = b.objs.get(link)
            own = (getattr(o, "cr_frame", None) or getattr(o, "ag_frame", None))
            if own is not fr.pyframe:
                bad.append("frame attributed to link %s is not that object's frame" % link)
    # ground truth: what a thrown exception unwinds through (user frames; innermost first in the log)
    try:
        if rootk == "coro":
            x.throw(Probe())
        elif aw is not None and term != "own":
            aw.throw(Probe())
        else:
            x.athrow(Probe()).send(None)
        threw = "nothing raised"
    except Probe:
        threw = None
    except BaseException as ex:
        threw = repr(ex)
    if threw is not None:
        return {"skip": "harness: throwing into the chain gave %s" % threw}
    path = list(reversed(b.log))
    links = [e[1] for e in got if e[0] == "link"]
    if path != links:
        bad.append("user frames %s, an exception unwinds through links %s" % (links, path))
    return {"bad": bad}


def main():
    data = json.load(open(sys.argv[1]))
    out = []
    for idx, case in enumerate(data["cases"]):
        try:
            r = run_case(case)
        except BaseException:
            import traceback
            r = {"skip": "harness: " + traceback.format_exc()[-600:]}
        r["idx"] = idx
        out.append(r)
    json.dump(out, open(sys.argv[2], "w"))


if __name__ == "__main__":
    main()
