"""Replay driver for C04 (Slice).  Two phases, both building the SAME real thread stacks from "plans":
  shapes  <plans.json> <shapes.json>   build each stack, report its real shape (frames per greenlet segment,
                                       outermost segment first, thread bootstrap and carrier helper frames included)
  queries <cases.json> <out.json>      build each stack again and, at its innermost frame (the caller of
                                       stackscope), run every (outer, inner, limit) query TLC enumerated for that
                                       shape, comparing frame identities with the specification's RefSlice
A plan is a list of segments; a segment is a list of carrier kinds ("plain" | "gen" | "coro"), one per call level."""
import json
import sys
import threading

import stackscope
from stackscope import StackSlice

try:
    import greenlet
except ImportError:
    greenlet = None


def true_stack():
    """the thread's frames, outermost first, the way an exception would propagate (f_back, then greenlet parents)"""
    frames = []
    f = sys._getframe(1)
    g = greenlet.getcurrent() if greenlet else None
    while True:
        while f is not None:
            frames.append(f)
            f = f.f_back
        if g is None or g.parent is None:
            break
        g = g.parent
        f = g.gr_frame
    frames.reverse()
    return frames


def real_shape(T):
    segs, count = [], 0
    for fr in T:
        count += 1
    # walk from the inside out: a frame whose f_back is None starts its segment
    segs, count = [], 0
    for fr in reversed(T):
        count += 1
        if fr.f_back is None:
            segs.append(count)
            count = 0
    segs.reverse()
    return segs


def descend(plan, si, li, at_bottom):
    """make the call for level li of segment si, then go on; at the end call at_bottom()"""
    if si == len(plan):
        return at_bottom()
    seg = plan[si]
    if li == 0 and seg and seg[0] == "@dead":
        li = 1          # marker only: this segment was spawned underneath a parent greenlet that has since died
    if li == len(seg):
        if si + 1 == len(plan):
            return at_bottom()
        if plan[si + 1] and plan[si + 1][0] == "@dead":
            # g1 creates g2 (so g2.parent is g1) and finishes; we then resume g2: its parent chain is
            # g2 -> g1 (dead, no frames) -> this greenlet
            holder = {}

            def g1_body():
                holder["g2"] = greenlet.greenlet(descend)
            g1 = greenlet.greenlet(g1_body)
            g1.switch()
            holder["g2"].switch(plan, si + 1, 0, at_bottom)
            return
        gl = greenlet.greenlet(descend)
        gl.switch(plan, si + 1, 0, at_bottom)
        return
    kind = seg[li]
    if kind == "plain":
        plain(plan, si, li + 1, at_bottom)
    elif kind == "gen":
        def g():
            descend(plan, si, li + 1, at_bottom)
            yield
        next(g())
    else:
        async def c():
            descend(plan, si, li + 1, at_bottom)
        try:
            c().send(None)
        except StopIteration:
            pass


def plain(plan, si, li, at_bottom):
    descend(plan, si, li, at_bottom)


def on_thread(fn):
    res = {}

    def target():
        try:
            fn(res)
        except BaseException:
            import traceback
            res["error"] = traceback.format_exc()[-800:]
    t = threading.Thread(target=target)
    t.start()
    t.join(600)
    if t.is_alive():
        res["error"] = "thread did not finish"
    return res


def measure(res):
    res["shape"] = real_shape(true_stack())


def phase_shapes(plans):
    out = []
    for plan in plans:
        if len(plan) > 1 and greenlet is None:
            out.append(None)
            continue

        def go(res, plan=plan):
            descend(plan, 0, 0, lambda: measure(res))
        r = on_thread(go)
        out.append(r.get("shape") if "error" not in r else {"error": r["error"]})
    return out


def same_segment(T, o, i_):
    f = T[i_ - 1]
    while f is not None:
        if f is T[o - 1]:
            return True
        f = f.f_back
    return False


def run_queries(cases, res):
    T = true_stack()[:-1]          # without this helper's own frame?  no: the caller of stackscope is THIS frame
    T = true_stack()
    res["shape"] = real_shape(T)
    res["n"] = res["api"] = 0
    res["bad"] = []
    idx = {id(f): k + 1 for k, f in enumerate(T)}
    for c in cases:
        o, i_, lim = c["outer"], c["inner"], c["limit"]
        outer = T[o - 1] if o else None
        inner = T[i_ - 1] if i_ else None
        st = stackscope.extract(StackSlice(outer=outer, inner=inner, limit=(lim or None)), with_contexts=False)
        got = [f.pyframe for f in st.frames]
        want = [T[k - 1] for k in c["expect"]]
        res["n"] += 1
        if st.error is not None or len(got) != len(want) or any(a is not b for a, b in zip(got, want)):
            res["bad"].append({"query": [o, i_, lim], "bad": "frames %s expected %s error %r" % ([idx.get(id(f), "?") for f in got], c["expect"], st.error)})
            continue
        if any((f.modname or "").startswith("stackscope.") and not (f.modname or "").startswith("stackscope._tests") for f in st.frames):
            res["bad"].append({"query": [o, i_, lim], "bad": "result contains stackscope's own frames"})
        if st.root is not None:
            res["bad"].append({"query": [o, i_, lim], "bad": "root of a slice extraction is not None"})
        alt = None
        if i_ == 0 and lim == 0:
            alt = stackscope.extract_since(outer, with_contexts=False)
        elif o == 0 and i_ != 0:
            alt = stackscope.extract_until(inner, limit=(lim or None), with_contexts=False)
        elif o != 0 and i_ != 0 and lim == 0 and same_segment(T, o, i_):
            alt = stackscope.extract_until(inner, limit=outer, with_contexts=False)
        if alt is not None:
            res["api"] += 1
            ag = [f.pyframe for f in alt.frames]
            if len(ag) != len(got) or any(a is not b for a, b in zip(ag, got)):
                res["bad"].append({"query": [o, i_, lim], "bad": "extract_since/extract_until disagrees with extract(StackSlice): %s" % [idx.get(id(f), "?") for f in ag]})


def phase_queries(data):
    out = {"n": 0, "api_variants": 0, "stacks": 0, "skipped": 0, "mismatches": []}
    for item in data["items"]:
        plan, cases = item["plan"], item["cases"]
        if len(plan) > 1 and greenlet is None:
            out["skipped"] += len(cases)
            continue

        def go(res, plan=plan, cases=cases):
            descend(plan, 0, 0, lambda: run_queries(cases, res))
        r = on_thread(go)
        out["stacks"] += 1
        if "error" in r:
            out["mismatches"].append({"plan": plan, "bad": "harness: " + r["error"]})
            continue
        if r["shape"] != item["shape"]:
            out["mismatches"].append({"plan": plan, "bad": "harness: shape changed between phases: %s vs %s" % (r["shape"], item["shape"])})
            continue
        out["n"] += r["n"]
        out["api_variants"] += r["api"]
        for b in r["bad"]:
            b["plan"] = plan
            b["shape"] = item["shape"]
            out["mismatches"].append(b)
    other_thread_cases(out)
    deeper_than_the_recursion_limit(out)
    return out


def deeper_than_the_recursion_limit(out):
    """every greenlet has a recursion depth of its own: the stitched stack of a thread (child greenlet + parents) may
    hold more frames than sys.getrecursionlimit().  The true stack is a true stack however long it is."""
    if greenlet is None:
        return

    def go(res):
        old = sys.getrecursionlimit()
        base = len(true_stack())
        sys.setrecursionlimit(base + 150)
        try:
            def bottom():
                T = true_stack()
                st = stackscope.extract_since(None)
                got = [f.pyframe for f in st.frames]
                res["limit"] = sys.getrecursionlimit()
                res["true"] = len(T)
                res["got"] = len(got)
                # stackscope's own frames are not reported; T ends with bottom's frame, so does the extraction
                res["same"] = got == T
                res["error"] = repr(st.error) if st.error is not None else None
                o = T[3]
                st2 = stackscope.extract(StackSlice(outer=o))
                res["since_outer_same"] = [f.pyframe for f in st2.frames] == T[3:]

            def rec(n, then):
                if n:
                    return rec(n - 1, then)
                return then()

            def child_body():
                greenlet.getcurrent().parent.switch()
                rec(100, bottom)
            child = greenlet.greenlet(child_body)
            child.switch()                            # started while this greenlet is shallow
            rec(100, child.switch)                    # resumed from deep inside the parent
        finally:
            sys.setrecursionlimit(old)
    r = on_thread(go)
    out["n"] += 1
    if "true" not in r:
        out["mismatches"].append({"plan": [["deeper than the recursion limit"]], "shape": [], "query": "extract_since(None)",
                                  "bad": "harness: scenario did not run: %s" % (r.get("error"),)})
        return
    if r["true"] <= r["limit"]:
        out["mismatches"].append({"plan": [["deeper than the recursion limit"]], "shape": [], "query": "extract_since(None)",
                                  "bad": "harness: the stack has %d frames, the limit is %d" % (r["true"], r["limit"])})
        return
    if not r["same"] or r["error"] or not r["since_outer_same"]:
        out["mismatches"].append({"plan": [["a greenlet resumed from deep inside its parent: %d frames, recursion limit %d" % (r["true"], r["limit"])]],
                                  "shape": [], "query": "extract_since(None) / StackSlice(outer)",
                                  "bad": "%d frames reported, the true stack has %d (identical: %s; from an outer frame: %s; error %s)" % (
                                      r["got"], r["true"], r["same"], r["since_outer_same"], r["error"])})


def other_thread_cases(out):
    """outer frame running on ANOTHER thread: an ordinary threading.Thread, and a thread the threading module has never
    heard of (_thread.start_new_thread; a thread created by C code would be the same) -- the slice is that thread's
    frames from outer inward, whichever kind it is"""
    import _thread
    import threading
    import time
    for kind in ("threading.Thread", "_thread.start_new_thread"):
        box, lock, ready = {}, _thread.allocate_lock(), _thread.allocate_lock()
        lock.acquire()
        ready.acquire()

        def innermost():
            box["inner"] = sys._getframe(0)
            ready.release()
            lock.acquire()

        def middle():
            box["mid"] = sys._getframe(0)
            innermost()

        def outermost():
            box["outer"] = sys._getframe(0)
            middle()
        if kind == "threading.Thread":
            threading.Thread(target=outermost, daemon=True).start()
        else:
            _thread.start_new_thread(outermost, ())
        ready.acquire()
        time.sleep(0.02)
        truth = [box["outer"], box["mid"], box["inner"]]
        try:
            for label, st, want in (
                    ("extract_since(outer)", stackscope.extract_since(box["outer"]), truth),
                    ("extract_since(middle)", stackscope.extract_since(box["mid"]), truth[1:]),
                    ("extract(StackSlice(outer, limit=2))", stackscope.extract(stackscope.StackSlice(outer=box["outer"], limit=2)), truth[:2]),
                    ("extract_until(innermost)", stackscope.extract_until(box["inner"], limit=box["mid"]), truth[1:])):
                out["n"] += 1
                got = [f.pyframe for f in st.frames]
                if got != want or st.error is not None:
                    out["mismatches"].append({"plan": [["other thread: " + kind]], "shape": [3], "query": label,
                                              "bad": "frames %s expected %s error %r" % ([f.f_code.co_name for f in got], [f.f_code.co_name for f in want], st.error)})
        finally:
            lock.release()


def main():
    phase = sys.argv[1]
    data = json.load(open(sys.argv[2]))
    if phase == "shapes":
        json.dump(phase_shapes(data["plans"]), open(sys.argv[3], "w"))
    else:
        json.dump(phase_queries(data), open(sys.argv[3], "w"))


if __name__ == "__main__":
    # the calling code lives in a module whose name merely BEGINS like the library's ("stackscope_..."): it is user
    # code all the same, and none of its frames may be taken for the library's own
    __name__ = "stackscope_verif_slice_driver"
    main()
