"""C05 (b)/(c): fault injection at the k-th dynamic invocation of every hook kind, on a corpus of real
extraction scenarios, and extraction of arbitrary non-stack objects.  stdlib-only where possible (the
greenlet scenario is skipped when greenlet is missing).

usage: corpus_driver.py <out.json> [max_k_per_kind]"""
import contextlib
import json
import sys
import threading
import types
import warnings

import stackscope
from stackscope import _extract, _glue
from stackscope._customization import FrameIterator

sys.path.insert(0, __import__("os").path.dirname(__import__("os").path.dirname(__import__("os").path.dirname(__import__("os").path.abspath(__file__)))))
from harness import rec_m1  # noqa: E402


class Injected(Exception):
    pass


# injected faults are exceptions of many standard kinds, in rotation (all subclasses of Injected)
_KINDS = [type("Injected" + b.__name__, (Injected, b), {}) for b in
          (ValueError, AttributeError, KeyError, LookupError, TypeError, RuntimeError, OSError, ImportError, AssertionError)]
_kind_counter = [0]


def injected(text):
    # consecutive faults are alternately of the same kind and of different kinds (two faults of one kind and text are
    # still two faults)
    _kind_counter[0] += 1
    return _KINDS[(_kind_counter[0] // 2) % len(_KINDS)](text)


# ---------------------------------------------------------------- scenarios
@types.coroutine
def trap():
    yield "trap"


class PlainCM:
    def __enter__(self):
        return self

    def __exit__(self, *a):
        return False


class PlainACM:
    async def __aenter__(self):
        return self

    async def __aexit__(self, *a):
        return False


@contextlib.contextmanager
def gcm_inner():
    with PlainCM():
        yield "inner"


@contextlib.contextmanager
def gcm_outer():
    with contextlib.ExitStack() as es:
        es.enter_context(gcm_inner())
        es.callback(print, "bye")
        yield "outer"


@contextlib.asynccontextmanager
async def agcm():
    async with contextlib.AsyncExitStack() as aes:
        aes.callback(print, "x")
        await aes.enter_async_context(PlainACM())
        aes.enter_context(gcm_outer())
        yield "agcm"


async def level4():
    with PlainCM() as p:  # noqa: F841
        await trap()


async def level3():
    async with agcm() as a:  # noqa: F841
        await level4()


async def level2():
    with gcm_outer() as g:  # noqa: F841
        await level3()


async def level1():
    async with PlainACM():
        await level2()


def gen_leaf():
    with gcm_inner():
        yield 1


def gen_mid():
    with PlainCM():
        yield from gen_leaf()


@contextlib.asynccontextmanager
async def agcm_exiting():
    try:
        yield "x"
    finally:
        await trap()


@contextlib.asynccontextmanager
async def agcm_plain():
    with PlainCM():
        yield "y"


@stackscope.unwrap_context_generator.register(agcm_exiting)
@stackscope.unwrap_context_generator.register(agcm_plain)
def _ucg_hook(frame, context):
    return None


async def exiting_user():
    async with agcm_plain():
        async with agcm_exiting():
            pass


async def body_user():
    async with agcm_plain():
        async with agcm_exiting():
            await trap()


class Custom:
    def __init__(self, items):
        self.items = items


@stackscope.unwrap_stackitem.register(Custom)
@stackscope.yields_frames
def unwrap_custom(c):
    for it in c.items:
        yield it


def run_out(c):
    """drive a coroutine to completion (a coroutine whose managers suspend while exiting must not be close()d)"""
    for _ in range(20):
        try:
            c.send(None)
        except StopIteration:
            return
    raise RuntimeError("scenario coroutine did not finish")


class Scenario:
    def __init__(self, name, make, cleanup):
        self.name, self.make, self.cleanup = name, make, cleanup


def scenarios():
    out = []

    def mk_async():
        c = level1()
        c.send(None)
        return c, lambda: c.close()
    out.append(("async chain with nested generator-based managers and exit stacks", mk_async))

    def mk_exiting():
        c = exiting_user()
        c.send(None)
        return c, lambda: run_out(c)
    out.append(("generator-based managers with unwrap_context_generator hooks, innermost one exiting", mk_exiting))

    def mk_body():
        c = body_user()
        c.send(None)
        return c, lambda: run_out(c)
    out.append(("generator-based managers with unwrap_context_generator hooks, suspended in the body", mk_body))

    def mk_gen():
        g = gen_mid()
        next(g)
        return g, lambda: g.close()
    out.append(("generator chain with managers", mk_gen))

    def mk_thread():
        ev, started = threading.Event(), threading.Event()

        def body():
            with gcm_outer():
                started.set()
                ev.wait()
        t = threading.Thread(target=body, daemon=True)
        t.start()
        started.wait(5)
        import time
        time.sleep(0.05)

        def done():
            ev.set()
            t.join(5)
        return t, done
    out.append(("parked thread", mk_thread))

    def mk_custom():
        g1, g2 = gen_mid(), gen_leaf()
        next(g1)
        next(g2)
        c = Custom([g1, Custom([g2.gi_frame]), object()])

        def done():
            g1.close()
            g2.close()
        return c, done
    out.append(("custom items (yields_frames) over generators and a leaf", mk_custom))
    try:
        import greenlet

        def mk_glet():
            def body():
                with gcm_inner():
                    greenlet.getcurrent().parent.switch()
            g = greenlet.greenlet(body)
            g.switch()
            return g, lambda: g.throw(greenlet.GreenletExit)
        out.append(("suspended greenlet", mk_glet))
    except ImportError:
        pass
    return out


# ---------------------------------------------------------------- injection
KINDS = ["unwrap_stackitem", "iter_step", "elaborate_frame", "context_analysis", "elaborate_context",
         "unwrap_context", "unwrap_context_generator", "fill_context"]


class HookProxy:
    """stands in for a code_dispatch hook object: counts / faults calls, delegates everything else"""

    def __init__(self, inj, kind, orig):
        self._inj, self._kind, self._orig = inj, kind, orig

    def __call__(self, *a, **k):
        self._inj.tick(self._kind)
        return self._orig(*a, **k)

    def __getattr__(self, name):
        return getattr(self._orig, name)


def under_extract_outermost():
    """independent signature of F14: is the faulting hook running underneath an extract_outermost() call that
    stackscope's own glue made (its error list is thrown away once a frame has been produced)?"""
    f = sys._getframe(1)
    while f is not None:
        if f.f_code.co_name == "extract_outermost" and f.f_globals.get("__name__") == "stackscope._extract":
            return True
        f = f.f_back
    return False


class Injector:
    def __init__(self):
        self.counts = {}
        self.target = None  # (kind, k)
        self.fired = None
        self.exc = None
        self.rec_yield_at_fault = None

    def tick(self, kind):
        self.counts[kind] = self.counts.get(kind, 0) + 1
        if self.target == (kind, self.counts[kind]):
            self.exc = injected("%s#%d" % (kind, self.counts[kind]))
            self.exc.in_outermost = under_extract_outermost()
            self.exc.om_id = self.om_active[-1] if self.om_active else None
            self.fired = (kind, self.counts[kind])
            raise self.exc

    def install(self):
        inj = self
        self.orig = dict(unwrap=_extract.unwrap_stackitem, elab=_extract.elaborate_frame,
                         ctx=_extract.contexts_active_in_frame, ectx=_extract.elaborate_context,
                         uctx=_extract.unwrap_context, fill=_extract.fill_context, child=_extract.extract_child)
        self.child_stacks = []
        self.orig["outermost"] = _extract.extract_outermost
        self.om_active = []
        self.om_outcome = {}
        self.om_count = 0

        def outermost(stackitem, **kw):
            inj.om_count += 1
            cid = inj.om_count
            inj.om_active.append(cid)
            try:
                res = inj.orig["outermost"](stackitem, **kw)
                inj.om_outcome[cid] = "returned"
                return res
            except BaseException:
                inj.om_outcome[cid] = "raised"
                raise
            finally:
                inj.om_active.pop()
        _extract.extract_outermost = outermost
        self.orig["ucg"] = _glue.unwrap_context_generator
        _glue.unwrap_context_generator = HookProxy(self, "unwrap_context_generator", self.orig["ucg"])
        o = self.orig

        def unwrap(item):
            inj.tick("unwrap_stackitem")
            res = o["unwrap"](item)
            if isinstance(res, FrameIterator):
                inner = res.inner

                def steps():
                    while True:
                        inj.tick("iter_step")
                        try:
                            yield next(inner)
                        except StopIteration:
                            return
                return FrameIterator(steps())
            return res

        def elab(frame, next_inner):
            inj.tick("elaborate_frame")
            return o["elab"](frame, next_inner)

        def ctx(frame, origin, next_inner):
            inj.tick("context_analysis")
            return o["ctx"](frame, origin, next_inner)

        def ectx(mgr, context):
            inj.tick("elaborate_context")
            return o["ectx"](mgr, context)

        def uctx(mgr, context):
            inj.tick("unwrap_context")
            return o["uctx"](mgr, context)

        def fill(context):
            inj.tick("fill_context")
            return o["fill"](context)

        def child(stackitem, *, for_task):
            st = o["child"](stackitem, for_task=for_task)
            inj.child_stacks.append(st)
            return st

        _extract.extract_child = child
        _extract.unwrap_stackitem = unwrap
        _extract.elaborate_frame = elab
        _extract.contexts_active_in_frame = ctx
        _extract.elaborate_context = ectx
        _extract.unwrap_context = uctx
        _extract.fill_context = fill

    def uninstall(self):
        o = self.orig
        _extract.unwrap_stackitem = o["unwrap"]
        _extract.elaborate_frame = o["elab"]
        _extract.contexts_active_in_frame = o["ctx"]
        _extract.elaborate_context = o["ectx"]
        _extract.unwrap_context = o["uctx"]
        _extract.fill_context = o["fill"]
        _extract.extract_child = o["child"]
        _glue.unwrap_context_generator = o["ucg"]
        _extract.extract_outermost = o["outermost"]


def all_stacks(st, acc=None):
    acc = [] if acc is None else acc
    acc.append(st)
    for fr in st.frames:
        for c in fr.contexts:
            walk_ctx(c, acc)
    return acc


def walk_ctx(c, acc):
    if c.inner_stack is not None:
        all_stacks(c.inner_stack, acc)
    for ch in c.children:
        if isinstance(ch, stackscope.Stack):
            all_stacks(ch, acc)
        else:
            walk_ctx(ch, acc)


def errors_of(st):
    e = st.error
    if e is None:
        return []
    if hasattr(e, "exceptions") and not isinstance(e, Injected):
        return list(e.exceptions)
    return [e]


def run_one(name, mk, inj, rec, max_k):
    res = {"scenario": name, "injections": 0, "bad": [], "f13": [], "f14": [], "traces": [], "counts": {}}
    target, done = mk()
    try:
        # fault-free baseline
        inj.counts, inj.target = {}, None
        rec.take()
        with warnings.catch_warnings(record=True):
            warnings.simplefilter("always")
            base = stackscope.extract(target, recurse_child_tasks=True)
        base_frames = [(f.pyframe, f.lineno) for f in base.frames]
        if base.error is not None:
            res["bad"].append("fault-free extraction has an error: %r" % (base.error,))
        counts = dict(inj.counts)
        res["counts"] = counts
        rec.take()
        plan = [(kind, k) for kind in KINDS for k in range(1, counts.get(kind, 0) + 1)]
        if max_k and len(plan) > max_k:
            step = len(plan) / float(max_k)
            plan = [plan[int(i * step)] for i in range(max_k)]
        pairs = []
        if len(plan) >= 2:
            pairs = [(plan[i], plan[(i * 7 + 3) % len(plan)]) for i in range(0, len(plan), max(1, len(plan) // 12))]
            # ... and neighbouring calls of the same hook (often siblings: two entries of one ExitStack, two contexts of
            # one frame): when one fault does not end the enclosing hook, the next one fires too, and BOTH must be kept
            full = [(kind, k) for kind in KINDS for k in range(1, counts.get(kind, 0) + 1)]
            near = [(full[i], full[i + 1]) for i in range(len(full) - 1) if full[i][0] == full[i + 1][0]]
            if len(near) > 40:
                st_ = len(near) / 40.0
                near = [near[int(i * st_)] for i in range(40)]
            pairs += near
        for tgt in plan:
            inj.counts, inj.target, inj.fired, inj.exc = {}, tgt, None, None
            rec.take()
            try:
                with warnings.catch_warnings(record=True):
                    warnings.simplefilter("always")
                    st = stackscope.extract(target, recurse_child_tasks=True)
            except BaseException as ex:
                res["bad"].append("%s: extract raised %r" % (tgt, ex))
                continue
            finally:
                runs = rec.take()
            if inj.fired is None:
                continue  # call pattern changed after an earlier ... (cannot happen for a single fault)
            res["injections"] += 1
            where = [s for s in all_stacks(st) if any(e is inj.exc for e in errors_of(s))]
            if len(where) == 0 and inj.exc.in_outermost and inj.om_outcome.get(inj.exc.om_id) == "returned":
                res["f14"].append("%s" % (tgt,))
            elif len(where) != 1:
                res["bad"].append("%s: injected exception found in %d Stack errors" % (tgt, len(where)))
            frames = [(f.pyframe, f.lineno) for f in st.frames]
            # lower bound for "outward frames kept": the frames the top-level run had yielded are unchanged
            common = 0
            while common < min(len(frames), len(base_frames)) and frames[common] == base_frames[common]:
                common += 1
            top = runs[0] if runs else None
            if where and where[0] is st and common < len(frames) and tgt[0] not in ("elaborate_frame",):
                # every frame the faulty extraction returned must also be in the fault-free one, in order
                res["bad"].append("%s: frames differ from the fault-free run at index %d" % (tgt, common))
            if where and where[0] is not st and frames != base_frames:
                res["bad"].append("%s: fault inside a nested stack changed the outer frames" % (tgt,))
            try:
                str(st)
                "".join(st.format_flat())
                st.as_stdlib_summary(show_contexts=True)
            except BaseException as ex:
                res["bad"].append("%s: result cannot be rendered: %r" % (tgt, ex))
            for r in runs:
                if not r.unbindable and len(r.events) <= 300:
                    res["traces"].append(r.to_json())
        # pairs of faults
        for a, b in pairs:
            inj.counts, inj.fired = {}, None
            inj.child_stacks = []
            fired = []
            inj2_targets = {a, b}

            class Two(Injector):
                pass
            orig_tick = inj.tick

            def tick(kind, _fired=fired, _t=inj2_targets):
                inj.counts[kind] = inj.counts.get(kind, 0) + 1
                if (kind, inj.counts[kind]) in _t:
                    e = injected("%s#%d" % (kind, inj.counts[kind]))
                    e.in_outermost = under_extract_outermost()
                    e.om_id = inj.om_active[-1] if inj.om_active else None
                    _fired.append(e)
                    raise e
            inj.tick = tick
            try:
                with warnings.catch_warnings(record=True):
                    warnings.simplefilter("always")
                    st = stackscope.extract(target, recurse_child_tasks=True)
                found = [e for s in all_stacks(st) for e in errors_of(s)]
                for e in fired:
                    if not any(e is x for x in found):
                        # independent signature of F13: the exception WAS recorded, in a nested Stack that a later
                        # fault in an enclosing hook threw away together with the sub-tree under construction
                        if e.in_outermost and inj.om_outcome.get(e.om_id) == "returned":
                            res["f14"].append("pair %s+%s" % (a, b))
                        elif any(e is x for cs in inj.child_stacks for x in errors_of(cs)):
                            res["f13"].append("pair %s+%s" % (a, b))
                        else:
                            res["bad"].append("pair %s+%s: an injected exception is not reported anywhere" % (a, b))
                res["injections"] += 1
                str(st)
            except BaseException as ex:
                res["bad"].append("pair %s+%s: extract raised %r" % (a, b, ex))
            finally:
                inj.tick = orig_tick
                rec.take()
    finally:
        inj.target = None
        done()
    return res


WEIRD = [None, 0, 3.5, "text", b"bytes", (), [], {}, set(), object(), object, type, len, print, sys, Ellipsis,
         NotImplemented, lambda: 0, range(3), iter([1]), Exception("x"), types.SimpleNamespace(a=1), slice(1, 2)]


class Hostile:
    def __getattr__(self, name):
        raise RuntimeError("hostile getattr " + name)

    def __repr__(self):
        return "<Hostile>"


def arbitrary_objects():
    bad = []
    n = 0
    for obj in WEIRD + [Hostile(), Hostile]:
        n += 1
        try:
            with warnings.catch_warnings(record=True):
                warnings.simplefilter("always")
                st = stackscope.extract(obj)
            if st.frames:
                bad.append("%r: has frames" % (obj,))
            if st.leaf is not obj:
                bad.append("%r: leaf is %r" % (obj, st.leaf))
            if st.error is not None:
                bad.append("%r: error %r" % (obj, st.error))
            str(st)
        except BaseException as ex:
            bad.append("%r: extract raised %r" % (obj, ex))
    return n, bad


def hostile_modules():
    """extract() starts by scanning sys.modules for glue: whatever sits there (a lazily loaded module whose import
    fails the moment it is touched, a proxy that refuses every attribute, None, an object without a __dict__), the call
    still returns a Stack with the target's frames and no error of its own"""
    class Refuses:
        def __init__(self, exc):
            object.__setattr__(self, "_exc", exc)

        def __getattribute__(self, name):
            raise object.__getattribute__(self, "_exc")("no attribute access: %s" % name)

    def tgt():
        yield 1
    bad, n = [], 0
    g = tgt()
    next(g)
    base = [f.pyframe for f in stackscope.extract(g).frames]
    hostile = [Refuses(ModuleNotFoundError), Refuses(ImportError), Refuses(KeyError), Refuses(RuntimeError), Refuses(OSError),
               None, object(), 42]
    for k, h in enumerate(hostile):
        name = "zz_verif_hostile_%d" % k
        sys.modules[name] = h
        try:
            for _ in range(2):
                n += 1
                try:
                    with warnings.catch_warnings(record=True):
                        warnings.simplefilter("always")
                        st = stackscope.extract(g)
                except BaseException as ex:
                    bad.append("sys.modules holds %s: extract raised %r" % (
                        type(h).__name__ if not isinstance(h, Refuses) else "an object that refuses every attribute access", ex))
                    break
                if [f.pyframe for f in st.frames] != base or st.error is not None:
                    bad.append("sys.modules holds a hostile entry: frames / error changed (%r)" % (st.error,))
        finally:
            del sys.modules[name]
    g.close()
    return n, bad


def failing_frame_sources():
    """a built-in frame source that cannot go on keeps what it had produced: a StackSlice naming two frames that are not
    on one call chain (two unrelated suspended generators), given directly and returned by an elaborate_frame hook"""
    bad = []

    def a():
        yield 1

    def b():
        yield 2

    def holder():
        yield 3
    ga, gb, gh = a(), b(), holder()
    for g in (ga, gb, gh):
        next(g)
    sl = stackscope.StackSlice(outer=ga.gi_frame, inner=gb.gi_frame)
    try:
        with warnings.catch_warnings(record=True):
            warnings.simplefilter("always")
            st = stackscope.extract(sl)
        if [f.pyframe for f in st.frames] != [ga.gi_frame] or st.error is None:
            bad.append("StackSlice(outer, inner) not on one call chain: frames %s error %r (expected the outer frame and a recorded error)"
                       % ([f.funcname for f in st.frames], st.error))
        "".join(st.format())
    except BaseException as ex:
        bad.append("StackSlice(outer, inner) not on one call chain: extract raised %r" % (ex,))

    @stackscope.elaborate_frame.register(holder)
    def _hook(frame, next_inner):
        return sl
    try:
        with warnings.catch_warnings(record=True):
            warnings.simplefilter("always")
            st = stackscope.extract(gh)
        if [f.pyframe for f in st.frames] != [gh.gi_frame, ga.gi_frame] or st.error is None:
            bad.append("a hook returns a StackSlice that fails after its first frame: frames %s error %r (expected holder, a and a recorded error)"
                       % ([f.funcname for f in st.frames], st.error))
    except BaseException as ex:
        bad.append("a hook returns a failing StackSlice: extract raised %r" % (ex,))
    for g in (ga, gb, gh):
        g.close()
    return 2, bad


def main():
    max_k = int(sys.argv[2]) if len(sys.argv) > 2 else 0
    rec = rec_m1.Recorder()
    rec.install()          # recorder delegates first, injector delegates on top
    inj = Injector()
    inj.install()
    out = {"scenarios": [], "objects": None}
    for name, mk in scenarios():
        out["scenarios"].append(run_one(name, mk, inj, rec, max_k))
    inj.uninstall()
    rec.uninstall()
    n, bad = arbitrary_objects()
    n2, bad2 = hostile_modules()
    n3, bad3 = failing_frame_sources()
    out["objects"] = {"n": n + n2 + n3, "bad": bad + bad2 + bad3}
    json.dump(out, open(sys.argv[1], "w"))


if __name__ == "__main__":
    main()
