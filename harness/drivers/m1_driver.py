"""Replay driver for M1 (ExtractIter): installs given hook tables through stackscope's public
customization API on synthetic stack items and real frames, runs extract(), and compares the
result with the terminal state computed by the TLA+ specification.

stdlib-only; runs under every interpreter.   usage: m1_driver.py <cases.json> <out.json>
cases.json: {"NF":..,"NW":..,"NL":.., "cases":[{"tid":..,"root":..,"U":[..],"E":[..],"C":[..],
             "expect":{"pc":..,"out":[..],"leaf":[..],"errors":[..]}}]}"""
import collections
import json
import sys
import types
import warnings

import stackscope
from stackscope import _extract

assert stackscope.__file__.startswith("/repo/") or "VERIF_REPO" in __import__("os").environ, stackscope.__file__


class Injected(Exception):
    def __init__(self, tag):
        super().__init__(tag)
        self.tag = tag


# the injected faults are exceptions of many standard kinds (a hook that fails with an AttributeError, a KeyError, an
# OSError ... is still a hook that failed): subclasses of Injected, picked in rotation
_KINDS = [type("Injected" + b.__name__, (Injected, b), {}) for b in
          (ValueError, AttributeError, KeyError, LookupError, TypeError, RuntimeError, OSError, ImportError, AssertionError)]
_kind_counter = [0]


def injected(tag):
    # consecutive faults are alternately of the same kind and of different kinds (two faults of one kind and text are
    # still two faults)
    _kind_counter[0] += 1
    return _KINDS[(_kind_counter[0] // 2) % len(_KINDS)](tag)


class W:
    """synthetic wrapper / leaf stack item"""

    def __init__(self, i):
        self.i = i

    def __repr__(self):
        return "W%d" % self.i

    def __len__(self):
        # every other synthetic item is FALSY (an empty container): stack items are filtered by identity with None,
        # never by truthiness
        return self.i % 2


# "a sequence" is any collections.abc.Sequence: hooks return their results in all of these
SEQ_TYPES = [list, tuple, collections.deque, collections.UserList]


class World:
    def __init__(self, NF, NW, NL):
        self.NF, self.NW, self.NL = NF, NW, NL
        self.tables = None
        self.variant = 0
        self.gens = {}
        self.frame_id = {}
        self.items = {}
        ns = {}
        for f in range(1, NF + 1):
            src = "def vf_%d():\n    yield %d\n" % (f, f)
            exec(compile(src, "<verif-m1-frame-%d>" % f, "exec"), ns)
            fn = ns["vf_%d" % f]
            g = fn()
            next(g)
            self.gens[f] = g
            self.frame_id[id(g.gi_frame)] = f
            # hooks are installed both ways: registered directly, and (odd frames) as customize(..., elaborate=hook), whose
            # wrapper must hand every result through unchanged -- an empty sequence is a result, not "no result"
            if f % 2:
                stackscope.customize(fn, elaborate=self._make_elab(f))
            else:
                stackscope.elaborate_frame.register(fn)(self._make_elab(f))
        for i in range(NF + 1, NF + NW + NL + 1):
            self.items[i] = W(i)
        stackscope.unwrap_stackitem.register(W)(self._unwrap)
        self._orig_ctx = _extract.contexts_active_in_frame
        _extract.contexts_active_in_frame = self._ctx

    def obj(self, i):
        if i == 0:
            return None
        if i <= self.NF:
            return self.gens[i].gi_frame
        return self.items[i]

    def ident(self, o):
        if o is None:
            return 0
        if isinstance(o, stackscope.Frame):
            return self.frame_id.get(id(o.pyframe), -1)
        if isinstance(o, types.FrameType):
            return self.frame_id.get(id(o), -1)
        if isinstance(o, W):
            return o.i
        return -2

    def _ctx(self, pyframe, origin, next_inner):
        f = self.frame_id.get(id(pyframe))
        if f is not None and self.tables["C"][f - 1]:
            raise injected(["ctx", f])
        return self._orig_ctx(pyframe, origin, next_inner)

    def _unwrap(self, w):
        if w.i > self.NF + self.NW:
            return None
        r = self.tables["U"][w.i - self.NF - 1]
        k = r["k"]
        xs = [self.obj(x) for x in r["xs"]]
        if k == "none":
            return None
        if k == "raise":
            raise injected(["unwrap", w.i])
        if k == "one":
            return xs[0]
        if k == "seq":
            return SEQ_TYPES[(self.variant + w.i) % len(SEQ_TYPES)](xs)
        fail = k == "iterfail"

        @stackscope.yields_frames
        def it():
            for x in xs:
                yield x
            if fail:
                raise injected(["iter", w.i])

        return it()

    def _make_elab(self, f):
        def elab(frame, next_inner):
            r = self.tables["E"][f - 1]
            k = r["k"]
            if k == "none":
                return None
            if k == "raise":
                frame.hide = True
                raise injected(["elab", f])
            xs = [self.obj(x) for x in r["xs"]]
            if k == "insert":
                xs.append(next_inner)
                return SEQ_TYPES[(self.variant + f) % len(SEQ_TYPES)](xs)
            if len(xs) == 1 and self.variant % 3 == 0:
                return xs[0]
            return SEQ_TYPES[(self.variant + f) % len(SEQ_TYPES)](xs)

        return elab

    def run(self, case):
        self.tables = case
        self.variant = case["tid"]
        got = {}
        try:
            with warnings.catch_warnings(record=True) as wlist:
                warnings.simplefilter("always")
                st = stackscope.extract(self.obj(case["root"]), with_contexts=any(case["C"]) or case["tid"] % 2 == 0)
        except Endless:
            raise               # the watchdog of main(), not an exception of the library's
        except BaseException as ex:  # extract is documented never to raise
            return {"pc": "escaped", "exc": repr(ex)}
        got["pc"] = "done"
        got["out"] = [self.ident(fr) for fr in st.frames]
        got["hide"] = [bool(fr.hide) for fr in st.frames]
        lf = st.leaf
        if lf is None:
            got["leaf"] = [0]
        elif isinstance(lf, list):
            got["leaf"] = [self.ident(x) for x in lf]
        else:
            got["leaf"] = [self.ident(lf)]
        err = st.error
        if err is None:
            errs = []
        elif hasattr(err, "exceptions") and not isinstance(err, Injected):
            errs = list(err.exceptions)
        else:
            errs = [err]
        tags = []
        for e in errs:
            if isinstance(e, Injected):
                tags.append(e.tag)
            elif isinstance(e, RuntimeError) and "unwrapped more than 100 times" in str(e):
                name = str(e).split(" ", 1)[0]
                tags.append(["guard", int(name[1:]) if name.startswith("W") else -1])
            else:
                tags.append(["other", repr(e)])
        got["errors"] = tags
        got["root_ok"] = st.root is self.obj(case["root"])
        got["warnings"] = [str(w.message)[:200] for w in wlist]
        # the result must still be formattable / summarisable (C05)
        try:
            text = str(st)
            flat = "".join(st.format_flat())
            st.as_stdlib_summary(show_contexts=True)
            got["renders"] = True
            # ... and a recorded error is REPORTED by both renderings, whatever else the Stack has (frames, a leaf)
            if st.error is not None and ("Error while extracting stack" not in text or "Error while extracting stack" not in flat):
                got["renders"] = "the renderings do not show the recorded error (leaf %s, %d frames)" % (
                    "present" if st.leaf is not None else "absent", len(st.frames))
        except BaseException as ex:
            got["renders"] = repr(ex)
        # extract_outermost contract (C16) on the same tables
        try:
            fr = stackscope.extract_outermost(self.obj(case["root"]), with_contexts=False)
            got["outermost"] = self.ident(fr)
        except Injected as ex:
            got["outermost"] = ["raise", ex.tag]
        except RuntimeError as ex:
            got["outermost"] = ["raise", "runtime"]
        except BaseException as ex:
            got["outermost"] = ["raise", "other", repr(ex)]
        return got


def compare(case, got):
    exp = case["expect"]
    bad = []
    if exp["pc"] != got["pc"]:
        return ["pc: spec %s impl %s %s" % (exp["pc"], got["pc"], got.get("exc", ""))]
    if exp["pc"] != "done":
        return bad
    eout = [o["f"] for o in exp["out"]]
    if eout != got["out"]:
        bad.append("frames: spec %s impl %s" % (eout, got["out"]))
    if list(exp["leaf"]) != got["leaf"]:
        bad.append("leaf: spec %s impl %s" % (exp["leaf"], got["leaf"]))
    if [list(e) for e in exp["errors"]] != got["errors"]:
        bad.append("errors: spec %s impl %s" % (exp["errors"], got["errors"]))
    if not bad:
        for o, h in zip(exp["out"], got["hide"]):
            if o["unhid"] and h:
                bad.append("frame %d whose elaborate hook raised is still hidden" % o["f"])
    if got["renders"] is not True:
        bad.append("result cannot be rendered: %s" % got["renders"])
    if not got["root_ok"]:
        bad.append("root is not the extracted object")
    # extract_outermost == first frame, raises iff none (re-raising the recorded error)
    if not bad:
        om = got["outermost"]
        if eout:
            if om != eout[0]:
                bad.append("extract_outermost: spec first frame %s impl %s" % (eout[0], om))
        else:
            if not (isinstance(om, list) and om[0] == "raise"):
                bad.append("extract_outermost returned %s although extract has no frames" % (om,))
    return bad


class Endless(BaseException):
    pass


def main():
    data = json.load(open(sys.argv[1]))
    world = World(data["NF"], data["NW"], data["NL"])
    results = []
    import signal

    def on_alarm(signum, frame):
        raise Endless()
    signal.signal(signal.SIGALRM, on_alarm)
    for case in data["cases"]:
        # the specification's extraction of these tables ends (TLC computed its result): so must the real one
        signal.setitimer(signal.ITIMER_REAL, 20.0)
        try:
            got = world.run(case)
            signal.setitimer(signal.ITIMER_REAL, 0)
            bad = compare(case, got)
        except Endless:
            got, bad = None, ["the extraction did not end within 20 s (the specification's ends)"]
            world = World(data["NF"], data["NW"], data["NL"])
        finally:
            signal.setitimer(signal.ITIMER_REAL, 0)
        if bad:
            results.append({"tid": case["tid"], "bad": bad, "got": got})
            if sum(1 for r in results if r["got"] is None) >= 3:
                break
    json.dump({"n": len(data["cases"]), "mismatches": results}, open(sys.argv[2], "w"))


if __name__ == "__main__":
    main()
