"""C14 / C17 interplay: stackscope is imported BEFORE trio, so the Trio glue is installed lazily by the first extraction
-- and that first extraction happens on Trio's thread while NO task is current (an Instrument hook; a signal handler
firing while the loop waits would be the same).  The glue must install all the same (no warning), and the task tree
extracted afterwards must be Trio's.   usage: trio_lazyglue.py <out.json>"""
import json
import sys
import warnings

import stackscope  # noqa: F401  (before trio, on purpose)

out = {"bad": [], "ran": False}
assert "trio" not in sys.modules, "harness: trio was imported before stackscope"
import trio  # noqa: E402
import trio.testing  # noqa: E402


class Early(trio.abc.Instrument):
    def __init__(self):
        self.done = False

    def before_run(self):
        try:
            trio.lowlevel.current_task()
            out["bad"].append("harness: a task is current in before_run")
        except RuntimeError:
            pass
        with warnings.catch_warnings(record=True) as wl:
            warnings.simplefilter("always")
            stackscope.extract(object())
        for w in wl:
            out["bad"].append("first extraction, made on Trio's thread with no current task: warning %s" % str(w.message)[:300])
        self.done = True


async def child(ev):
    await ev.wait()


async def main():
    ev = trio.Event()
    async with trio.open_nursery() as n:
        n.start_soon(child, ev)
        n.start_soon(child, ev)
        await trio.testing.wait_all_tasks_blocked()
        kids = list(n.child_tasks)

        async def holder():
            async with trio.open_nursery() as inner:
                inner.start_soon(child, ev)
                await ev.wait()
        n.start_soon(holder)
        await trio.testing.wait_all_tasks_blocked()
        h = [t for t in n.child_tasks if t not in kids][0]
        with warnings.catch_warnings(record=True) as wl:
            warnings.simplefilter("always")
            st = stackscope.extract(h, recurse_child_tasks=True)
        for w in wl:
            out["bad"].append("warning while extracting the task: %s" % str(w.message)[:200])
        ctxs = [c for f in st.frames for c in f.contexts]
        nur = [c for c in ctxs if isinstance(c.obj, trio.Nursery)]
        if len(nur) != 1:
            out["bad"].append("the task's nursery is not reported as a trio.Nursery context: %s" % [type(c.obj).__name__ for c in ctxs])
        elif len(nur[0].children) != 1 or not nur[0].children[0].frames:
            out["bad"].append("the nursery's child task is missing or a stub: %s" % [len(k.frames) for k in nur[0].children])
        if st.error is not None:
            out["bad"].append("error %r" % (st.error,))
        out["ran"] = True
        ev.set()


trio.run(main, instruments=[Early()])
json.dump(out, open(sys.argv[1], "w"))
