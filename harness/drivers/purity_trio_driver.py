"""C06 under Trio (differential leg): the same Trio program is run twice under a virtual clock -- un-observed, and with
extractions (of the running task itself, of a sibling, of the whole tree from the root task) taken at every probe point
-- and everything the program did must be identical: its log (effective deadlines, which operations were cancelled,
what went through its channel), the state of every cancel scope / nursery it created (read slot by slot, never through
properties), and its result.  The programs are enumerated: scope kind x deadline situation (none / future / passed but
not yet noticed by the scheduler / already cancelled) x shielded or not x where the observer stands.
Needs trio: the project venv only.   usage: purity_trio_driver.py <out.json>"""
import itertools
import json
import sys
import warnings

import trio
import trio.testing

import stackscope

SCOPE_KINDS = ("move_on_after", "fail_after", "CancelScope", "move_on_at")
SITUATIONS = ("none", "future", "passed", "cancelled")
OBSERVERS = ("self", "sibling", "root")


def raw_state(obj, seen=None, depth=0):
    """the object's slots / instance dict, read without going through properties"""
    out = {}
    names = []
    for klass in type(obj).__mro__:
        names += list(getattr(klass, "__slots__", ()))
    for n in names:
        if n in ("__weakref__",):
            continue
        try:
            v = object.__getattribute__(obj, n)
        except AttributeError:
            continue
        out[n] = v
    d = getattr(obj, "__dict__", None)
    if isinstance(d, dict):
        out.update(d)
    res = {}
    for k, v in out.items():
        if isinstance(v, (int, float, str, bool, type(None))):
            res[k] = repr(v)
        elif isinstance(v, (set, frozenset, list, tuple, dict)):
            res[k] = "%s of %d" % (type(v).__name__, len(v))
        else:
            res[k] = "%s@%x" % (type(v).__name__, id(v))
    return res


class Prog:
    def __init__(self, kind, situation, shield, observer, observe):
        self.kind, self.situation, self.shield, self.observer, self.observe = kind, situation, shield, observer, observe
        self.log = []
        self.changed = []
        self.watch = []
        self.root = None
        self.extractions = 0

    def open_scope(self):
        t = trio.current_time()
        dl = {"none": None, "future": 1000.0, "passed": 5.0, "cancelled": 1000.0}[self.situation]
        if self.kind == "move_on_after":
            s = trio.move_on_after(dl if dl is not None else float("inf"))
        elif self.kind == "fail_after":
            s = trio.fail_after(dl if dl is not None else float("inf"))
        elif self.kind == "move_on_at":
            s = trio.move_on_at(t + dl if dl is not None else float("inf"))
        else:
            s = trio.CancelScope(deadline=t + dl if dl is not None else float("inf"))
        return s

    def probe(self, label, sibling):
        if self.observe:
            before = [raw_state(o) for o in self.watch]
            me = trio.lowlevel.current_task()
            target = {"self": me, "sibling": sibling, "root": self.root}[self.observer]
            with warnings.catch_warnings(record=True) as wl:
                warnings.simplefilter("always")
                got = []
                for _ in range(2):          # (one call site: the running task's own frame is part of the result)
                    got.append(stackscope.extract(target, recurse_child_tasks=True))
                a, b = got
            self.extractions += 2
            if a != b:
                self.changed.append("%s: two extractions in a row differ" % label)
            if a.error is not None or [w for w in wl if issubclass(w.category, stackscope.InspectionWarning)]:
                self.changed.append("%s: error %r / warnings %s" % (label, a.error, [str(w.message)[:80] for w in wl]))
            after = [raw_state(o) for o in self.watch]
            for o, x, y in zip(self.watch, before, after):
                if x != y:
                    diff = {k: (x.get(k), y.get(k)) for k in set(x) | set(y) if x.get(k) != y.get(k)}
                    self.changed.append("%s: the extraction changed the state of a %s: %s" % (label, type(o).__name__, diff))
        self.log.append("%s: effective deadline %r" % (label, trio.current_effective_deadline()))

    async def sibling_task(self, task_status):
        with trio.CancelScope() as s:
            self.watch.append(s)
            task_status.started(trio.lowlevel.current_task())
            await trio.sleep_forever()

    async def worker(self, sibling):
        send, recv = trio.open_memory_channel(10)
        try:
            with self.open_scope() as scope:
                real = scope if isinstance(scope, trio.CancelScope) else None
                if real is not None:
                    self.watch.append(real)
                    real.shield = self.shield
                await trio.sleep(1)
                if self.situation == "passed":
                    trio.lowlevel.current_clock().jump(10)       # a long synchronous step: the scheduler has not looked yet
                if self.situation == "cancelled" and real is not None:
                    real.cancel()
                self.probe("in scope", sibling)
                try:
                    await send.send("result")
                    self.log.append("sent")
                except trio.Cancelled:
                    self.log.append("send cancelled")
                    raise
                self.probe("after send", sibling)
                await trio.sleep(1)
                self.log.append("slept")
            if real is not None:
                self.log.append("cancelled_caught=%s cancel_called=%s" % (real.cancelled_caught, real.cancel_called))
        except trio.TooSlowError:
            self.log.append("TooSlowError")
        try:
            self.log.append("received %r" % (recv.receive_nowait(),))
        except trio.WouldBlock:
            self.log.append("received nothing")

    async def main(self):
        self.root = trio.lowlevel.current_task()
        async with trio.open_nursery() as nursery:
            self.watch.append(nursery)
            self.watch.append(nursery.cancel_scope)
            sib = await nursery.start(self.sibling_task)
            await self.worker(sib)
            self.probe("before cancel", sib)
            nursery.cancel_scope.cancel()
        return "done"


def run(kind, situation, shield, observer, observe):
    p = Prog(kind, situation, shield, observer, observe)
    try:
        result = trio.run(p.main, clock=trio.testing.MockClock(autojump_threshold=0))
    except BaseException as ex:
        result = "raised %r" % (ex,)
    return p, result


def main():
    out = {"n": 0, "extractions": 0, "mismatches": []}
    for kind, situation, shield, observer in itertools.product(SCOPE_KINDS, SITUATIONS, (False, True), OBSERVERS):
        plain, r0 = run(kind, situation, shield, observer, False)
        obs, r1 = run(kind, situation, shield, observer, True)
        out["n"] += 1
        out["extractions"] += obs.extractions
        label = "%s, deadline %s%s, observer looks at %s" % (kind, situation, ", shielded" if shield else "", observer)
        if str(r0).startswith("raised") and "Cancelled" not in str(r0) and "TooSlow" not in str(r0):
            out["mismatches"].append({"case": label, "bad": "harness: the un-observed program failed: %s" % r0})
            continue
        if obs.changed:
            out["mismatches"].append({"case": label, "bad": "; ".join(obs.changed[:2])})
        elif (plain.log, r0) != (obs.log, r1):
            k = next((i for i, (a, b) in enumerate(zip(plain.log, obs.log)) if a != b), min(len(plain.log), len(obs.log)))
            out["mismatches"].append({"case": label, "bad": "the observed run diverges from the un-observed one at step %d: un-observed %r, observed %r (results %r / %r)" % (
                k, plain.log[k:k + 2], obs.log[k:k + 2], r0, r1)})
    json.dump(out, open(sys.argv[1], "w"))


if __name__ == "__main__":
    main()
