"""Minimal stand-in for the `exceptiongroup` backport, used only by the /verif harness when
running stackscope under bare 3.9/3.10 interpreters that lack the real package.  stackscope
only needs the class to exist and to carry its members."""


class ExceptionGroup(Exception):
    def __init__(self, message, exceptions):
        super().__init__(message, list(exceptions))
        self.message = message
        self.exceptions = tuple(exceptions)
