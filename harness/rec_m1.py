"""Recorder for pattern T on machine M1: turns real executions of stackscope's extract_iter into traces
for ExtractIterTrace.tla.  stdlib-only (runs under every interpreter).

Needs the guarded probes (STACKSCOPE_VERIF=1).  Events come from stackscope._verif.point (H1) and from
logging delegates placed on the module globals _extract.unwrap_stackitem / _extract.elaborate_frame /
_extract.extract_iter."""
import types
import weakref

import stackscope
from stackscope import _extract, _verif
from stackscope._customization import FrameIterator

GEN_TYPES = (types.CoroutineType, types.GeneratorType, types.AsyncGeneratorType)


class Unbindable(Exception):
    pass


class Run:
    def __init__(self, rec, root):
        self.rec = rec
        self.ids = {}
        self.keep = []
        self.n = {"f": 0, "g": 40, "w": 60, "n": 80}
        self.events = []
        self.yielded = []
        self.origins = []
        self.finished = False
        self.leaf = None
        self.unbindable = None
        self.prev_tu_len = 1
        self.prev_tu_raw = None
        self.prev_te_len = 0
        self.prev_nerr = 0
        self.last_unwrap = None
        self.last_elab = None
        self.root_obj = root
        self.root = self.ident(root)

    def ident(self, o):
        if o is None:
            return 0
        if isinstance(o, stackscope.Frame):
            o = o.pyframe
        k = id(o)
        if k in self.ids:
            return self.ids[k]
        if isinstance(o, types.FrameType):
            cls, lim = "f", 40
        elif isinstance(o, GEN_TYPES):
            cls, lim = "g", 60
        else:
            try:
                weakref.ref(o)
                cls, lim = "w", 80
            except TypeError:
                cls, lim = "n", 100
        self.n[cls] += 1
        if self.n[cls] > lim:
            self.unbindable = "too many items of class " + cls
            return lim
        self.ids[k] = self.n[cls]
        self.keep.append(o)
        return self.n[cls]

    def q_tu(self, tu):
        out = []
        for origin, item, depth in tu:
            if isinstance(item, stackscope.Frame):
                out.append({"x": self.ident(item), "d": depth, "o": self.ident(item.origin), "w": True})
            else:
                out.append({"x": self.ident(item), "d": depth, "o": self.ident(origin), "w": False})
        return out

    def q_te(self, te):
        out = []
        for item, depth in te:
            if isinstance(item, stackscope.Frame):
                out.append({"x": self.ident(item), "d": depth, "o": self.ident(item.origin)})
            else:
                out.append({"x": self.ident(item), "d": depth, "o": 0})
        return out

    def on_point(self, name, f):
        tu, te = self.q_tu(f["tu"]), self.q_te(f["te"])
        nerr = len(f["errs"])
        ev = {"act": name, "tu": tu, "te": te, "loops": f["loops"], "nerr": nerr,
              "r": {"k": "none", "xs": []}, "cf": 0, "own": False}
        if name == "PopFrame":
            # ground truth for the origin rule: was the popped frame the OWN frame of the object queued as its origin?
            # (the pre-state of this action is the post-state logged by the previous event; before the first event the
            # queue holds the root with itself as candidate origin)
            if self.prev_tu_raw:
                head = self.prev_tu_raw[0]
            elif not self.events:
                head = (self.root_obj, self.root_obj, 0)
            else:
                head = None
            if head is not None:
                org, item = head[0], head[1]
                fr = item.pyframe if isinstance(item, stackscope.Frame) else item
                ev["own"] = any(getattr(org, a, None) is fr for a in ("gi_frame", "cr_frame", "ag_frame")) and fr is not None
        self.prev_tu_raw = list(f["tu"])
        if name == "Unwrap":
            lu = self.last_unwrap
            self.last_unwrap = None
            grew = len(tu) - self.prev_tu_len + 1
            irreducible = len(te) == self.prev_te_len + 1
            if lu is None:
                # None items / leaves never reach the hook delegate?  they do (default hook) -- so this is odd
                self.unbindable = "Unwrap event without a hook call"
            elif lu[0] == "raise":
                ev["r"] = {"k": "raise", "xs": []}
            elif lu[1] is None:
                ev["r"] = {"k": "none", "xs": []}
            else:
                res = lu[1]
                tripped = nerr > self.prev_nerr and irreducible
                if tripped:
                    if isinstance(res, FrameIterator):
                        self.unbindable = "guard tripped on an iterator result"
                        xs = []
                    elif isinstance(res, (list, tuple)):
                        xs = [self.ident(x) for x in res]
                    else:
                        xs = [self.ident(res)]
                    ev["r"] = {"k": "seq", "xs": xs}
                else:
                    xs = [e["x"] for e in tu[:grew]]
                    if isinstance(res, FrameIterator):
                        k = "iterfail" if nerr > self.prev_nerr else "iter"
                    elif isinstance(res, (list, tuple)):
                        k = "seq"
                    else:
                        k = "one"
                    ev["r"] = {"k": k, "xs": xs}
        elif name == "Elab":
            le = self.last_elab
            self.last_elab = None
            if le is None:
                self.unbindable = "Elab event without a hook call"
            else:
                kind, rep, next_inner = le
                raised = kind == "raise"
                ev["cf"] = nerr - self.prev_nerr - (1 if raised else 0)
                if raised:
                    ev["r"] = {"k": "raise", "xs": []}
                elif rep is None:
                    ev["r"] = {"k": "none", "xs": []}
                else:
                    items = list(rep) if isinstance(rep, (list, tuple)) else [rep]
                    if items and items[-1] is next_inner:
                        k, items = "insert", items[:-1]
                    else:
                        k = "replace"
                    if any(isinstance(x, stackscope.Frame) for x in items):
                        self.unbindable = "hook returned a Frame object other than next_inner"
                    ev["r"] = {"k": k, "xs": [self.ident(x) for x in items]}
        self.events.append(ev)
        self.prev_tu_len = len(tu)
        self.prev_te_len = len(te)
        self.prev_nerr = nerr

    def to_json(self):
        lf = self.leaf
        if lf is None:
            leaf = [0]
        elif isinstance(lf, list):
            leaf = [self.ident(x) for x in lf]
        else:
            leaf = [self.ident(lf)]
        return {"root": self.root, "events": self.events, "yielded": self.yielded, "origins": self.origins,
                "finished": self.finished, "leaf": leaf}


class Recorder:
    def __init__(self):
        self.stack = []
        self.runs = []
        self.installed = False

    def install(self):
        assert _verif.ENABLED, "STACKSCOPE_VERIF=1 required"
        self.orig = (_extract.unwrap_stackitem, _extract.elaborate_frame, _extract.extract_iter)
        rec = self
        o_unwrap, o_elab, o_iter = self.orig

        def unwrap(item):
            run = rec.stack[-1] if rec.stack else None
            try:
                res = o_unwrap(item)
            except Exception as ex:
                if run is not None:
                    run.last_unwrap = ("raise", ex)
                raise
            if run is not None:
                run.last_unwrap = ("ok", res)
            return res

        def elab(frame, next_inner):
            run = rec.stack[-1] if rec.stack else None
            try:
                res = o_elab(frame, next_inner)
            except Exception as ex:
                if run is not None:
                    run.last_elab = ("raise", ex, next_inner)
                raise
            if run is not None:
                run.last_elab = ("ok", res, next_inner)
            return res

        def extract_iter(stackitem, save_errors):
            run = Run(rec, stackitem)
            rec.runs.append(run)
            it = o_iter(stackitem, save_errors)
            while True:
                rec.stack.append(run)
                try:
                    fr = next(it)
                except StopIteration as ex:
                    run.finished = True
                    run.leaf = ex.value
                    return ex.value
                finally:
                    rec.stack.pop()
                run.yielded.append(run.ident(fr))
                run.origins.append(run.ident(fr.origin))
                yield fr

        _extract.unwrap_stackitem = unwrap
        _extract.elaborate_frame = elab
        _extract.extract_iter = extract_iter
        _verif.sink = self.sink
        self.installed = True

    def uninstall(self):
        _extract.unwrap_stackitem, _extract.elaborate_frame, _extract.extract_iter = self.orig
        _verif.sink = None
        self.installed = False

    def sink(self, name, fields):
        if name in ("PopFrame", "Unwrap", "ReachLeaf", "Elab") and self.stack:
            self.stack[-1].on_point(name, fields)

    def take(self):
        runs, self.runs = self.runs, []
        return runs
