"""C12 -- customizations bind to exactly the code that runs; every customize option works.
Spec: CodeDispatch.tla (towers, nested-name paths, customize effects, identity-keyed registry, IdentityDict)."""
import json
from concurrent.futures import ThreadPoolExecutor

from ..common import BUILD, VERIF, MachineryError, available_interpreters, child_env, run
from ..tlc import derive_cfg, run_tlc


def check(ctx):
    ctx.explanation = ("CodeDispatch.tla enumerates every wrapper tower of depth <= 3 over partial / functools.wraps / bound "
                       "method with an optional outermost classmethod / staticmethod, every name path into nestings of "
                       "functions and classes that reuse names across scopes, all 2^3 x 3 x 2 customize combinations with the "
                       "documented effect of each, and every history of <= 3 (simulation: 7) Register/Dispatch operations over "
                       "code ids of which two are equal but not identical, and of IdentityDict operations over such keys "
                       "against an identity-keyed association list; TLC checks DispatchExact and well-formedness; every "
                       "scenario is executed against the real get_code / code_dispatch / customize / IdentityDict (the tower is "
                       "really called and the code that ran is compared by identity) on 3.9-3.12")
    res = ctx.tlc(run_tlc("CodeDispatch", "CodeDispatch.cfg", workers=1, timeout=1800, name="cd"), "static scenarios + all histories of 3 operations")
    if not res.ok:
        ctx.violation(f"model: {res.violated}", res.trace_text[-2000:])
        return
    scen = list(res.emitted)
    cfg = derive_cfg("CodeDispatch.cfg", "CodeDispatch_sim.cfg", {"MaxOps": "7", "MaxTower": "1"})
    sim = ctx.tlc(run_tlc("CodeDispatch", cfg, workers=1, timeout=900, simulate=f"num={1500 if ctx.tier == 'quick' else 20000}",
                          depth=9, seed=ctx.seed + 12, name="cdsim"), "simulated histories of 7 operations")
    if not sim.ok:
        ctx.violation(f"model (simulation): {sim.violated}", sim.trace_text[-2000:])
    scen += [e for e in sim.emitted if e["mode"] in ("registry", "idict")]
    d = BUILD / "m9"
    d.mkdir(parents=True, exist_ok=True)
    spath = d / "scenarios.json"
    spath.write_text(json.dumps({"scenarios": scen}))
    interps = available_interpreters()

    def one(item):
        v, py = item
        opath = d / f"out_{v}.json"
        p, _ = run([py, str(VERIF / "harness/drivers/dispatch_driver.py"), str(spath), str(opath)], timeout=1800, env=child_env(v))
        if p.returncode != 0:
            raise MachineryError(f"dispatch driver failed under {v}: {p.stderr[-2000:]}")
        return v, json.loads(opath.read_text())

    with ThreadPoolExecutor(4) as ex:
        outs = dict(ex.map(one, interps.items()))
    ctx.note("interpreters", sorted(outs))
    for v, o in outs.items():
        ctx.replays += o["n"]
        ctx.note("scenarios_by_mode", o["by_mode"])
        for mm in o["mismatches"]:
            if any(b.startswith("harness") for b in mm["bad"]):
                raise MachineryError(f"[{v}] {mm['mode']} {mm['scen']}: {mm['bad']}")
            ctx.violation(f"[{v}] {mm['mode']} {json.dumps(mm['scen'])[:300]}: " + "; ".join(mm["bad"][:3]), mm)
    for m in ("tower", "customize", "idict"):
        s = next((x for x in scen if x["mode"] == m), None)
        if s:
            ctx.sample({"mode": m, "scenario": s.get("scen"), "ops": s.get("ops"), "effect": s.get("effect")})
