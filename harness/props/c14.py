"""C14 -- Trio: the extracted tree is isomorphic to the real task tree, across thread hops.
Spec: TaskTree.tla (tree evolutions; the state is the expected extraction; PingPong(d))."""
import json

from ..common import BUILD, VERIF, VENV_PY, MachineryError, child_env, run
from ..tlc import require_coverage, run_tlc


def check(ctx):
    ctx.explanation = ("TaskTree.tla models the Trio task tree under open-nursery / start-child / leave-body (blocking in "
                       "__aexit__ while children live) / child-finishes, with the four source forms of nursery bodies (plain, "
                       "try/except, try/finally, conditional return); TLC checks tree-shape invariants exhaustively (4 tasks) and "
                       "simulated evolutions (6 tasks, nesting 3, 24 steps) are replayed by command-interpreting Trio tasks; at "
                       "every second step extract(root, recurse_child_tasks=True) must be isomorphic to the spec's tree "
                       "(nurseries in nesting order by identity, children matched by root identity, is_exiting on the nursery "
                       "being left, no error, no warning); the spec's tree is first checked against Trio's own "
                       "child_nurseries / child_tasks; to_thread/from_thread ping-pong of depth 0..2 from outside and inside; "
                       "any task may also install a greenback portal (action Ensure) and then waits for its commands in a "
                       "synchronous function through await_, so that its async frames and nursery blocks sit on a suspended "
                       "greenlet's stack: the expected tree is unchanged. FromThread.tla models FOREIGN threads calling "
                       "from_thread.run(afn, trio_token=...): message queued (no task yet: the Trio thread may be stuck in "
                       "synchronous code), served by a system task (alternating d times through to_thread / re-entrant "
                       "from_thread before it parks), returned, called again; extract(thread) from the Trio thread must be the "
                       "thread's own frames (compared by identity with sys._current_frames) and, only while ITS call is being "
                       "served, the serving task's frames afn, t(d) s(d) ... t(0) -- never another task's")
    ctx.assume("3.12 only (trio lives in the project venv)")
    r = ctx.tlc(run_tlc("TaskTree", "TaskTree.cfg", timeout=900), "tree evolutions, 4 tasks, exhaustive under VIEW")
    if not r.ok:
        ctx.violation(f"model: {r.violated}", r.trace_text[-2000:])
    require_coverage(r, ["Open", "Spawn", "Leave", "Finish", "Observe"])
    n = 150 if ctx.tier == "quick" else 2000
    x = ctx.tlc(run_tlc("TaskTree", "TaskTree_export.cfg", workers=1, timeout=900, simulate=f"num={n}", depth=26, seed=ctx.seed + 14,
                        name="ttx"), "simulated evolutions for replay")
    if not x.ok or not x.emitted:
        raise MachineryError("no task-tree behaviours exported")
    seen, behs = set(), []
    for e in x.emitted:
        k = json.dumps(e["acts"], sort_keys=True)
        if k not in seen:
            seen.add(k)
            behs.append({"acts": e["acts"]})
    # foreign threads calling from_thread.run(..., trio_token=...): FromThread.tla
    fr = ctx.tlc(run_tlc("FromThread", "FromThread.cfg", timeout=900, name="fromthread"), "foreign-thread calls, 3 threads, exhaustive under VIEW")
    if not fr.ok:
        ctx.violation(f"model (FromThread): {fr.violated}", fr.trace_text[-2000:])
    require_coverage(fr, ["Call", "Block", "Unblock", "Serve", "Finish", "Observe"])
    nf = 60 if ctx.tier == "quick" else 1200
    fx = ctx.tlc(run_tlc("FromThread", "FromThread_export.cfg", workers=1, timeout=900, simulate=f"num={nf}", depth=16, seed=ctx.seed + 141,
                         name="ftx"), "simulated foreign-thread behaviours for replay")
    if not fx.ok or not fx.emitted:
        raise MachineryError("no foreign-thread behaviours exported")
    fseen, foreign = set(), []
    for e in fx.emitted:
        k = json.dumps(e["acts"], sort_keys=True)
        if k not in fseen and any(a["a"] == "observe" for a in e["acts"]):
            fseen.add(k)
            foreign.append({"acts": e["acts"], "threads": ["A", "B"]})
    d = BUILD / "c14"
    d.mkdir(parents=True, exist_ok=True)
    bpath = d / "behaviours.json"
    bpath.write_text(json.dumps({"behaviours": behs, "pingpong": x.emitted[0]["pingpong"], "foreign": foreign}))
    opath = d / "out.json"
    p, _ = run([VENV_PY, str(VERIF / "harness/drivers/trio_driver.py"), str(bpath), str(opath)], timeout=1500, env=child_env("3.12"))
    if p.returncode != 0:
        raise MachineryError(f"trio driver failed: {p.stderr[-2500:]}")
    o = json.loads(opath.read_text())
    if o["gt_errors"]:
        raise MachineryError(f"ground truth: {o['gt_errors'][0]}")
    ctx.replays += o["n"]
    ctx.note("observations", o["observations"])
    ctx.note("pingpong_scenarios", o["pingpong_n"])
    ctx.note("interpreters", ["3.12"])
    for mm in o["mismatches"]:
        ctx.violation(f"step {mm['step']}: " + "; ".join(mm["bad"]), mm)
    for b in o["pingpong"]:
        if b.startswith("harness") or ": harness exception" in b:
            raise MachineryError(b)
        ctx.violation(b, None)
    ctx.replays += o["foreign_n"]
    ctx.note("foreign_thread_behaviours", o["foreign_n"])
    for mm in o["foreign"]:
        ctx.violation("foreign thread in from_thread.run: " + "; ".join(mm["bad"]), mm)
    ctx.sample({"behaviour": behs[0]["acts"][:6]})
    ctx.sample({"foreign_thread_behaviour": foreign[0]["acts"][:8]})
    # the Trio glue installed lazily, by a first extraction made on Trio's thread while no task is current
    lpath = d / "lazyglue_out.json"
    p, _ = run([VENV_PY, str(VERIF / "harness/drivers/trio_lazyglue.py"), str(lpath)], timeout=300, env=child_env("3.12"))
    if p.returncode != 0:
        raise MachineryError(f"lazy-glue scenario failed: {p.stderr[-1500:]}")
    lo = json.loads(lpath.read_text())
    if not lo["ran"]:
        raise MachineryError("lazy-glue scenario did not run")
    ctx.replays += 1
    for b in lo["bad"]:
        if b.startswith("harness"):
            raise MachineryError(b)
        ctx.violation("stackscope imported before trio, first extraction from an Instrument hook: " + b, None)
