"""Independent reader of the marker lines produced by Format.tla / stackscope.format(): recovers the nesting
(Shape) and checks unique decodability."""
import json


def shape_stack(s, o, is_inner=False):
    """the distinctions the PREFIXES make (payload text ignored)"""
    frames = []
    for f in s["frames"]:
        if f["hide"] and not o["hidden"]:
            continue
        frames.append(shape_frame(f, o))
    return {"frames": frames, "leaf": s["leaf"], "error": s["error"]}


def shape_frame(f, o):
    ctxs = []
    if o["ctx"]:
        for c in f["ctxs"]:
            sc = shape_ctx(c, o)
            if sc is not None:
                ctxs.append(sc)
    code = f["line"] and not (f["ctxs"] and f["ctxs"][-1]["exiting"])
    return {"ctxs": ctxs, "code": bool(code)}


def empty_stack_shape(st):
    return not st["frames"] and not st["leaf"] and not st["error"]


def shape_ctx(c, o):
    if c["hide"] and not o["hidden"]:
        return None
    inner = None
    if c["inner"]["t"] == "stack":
        si = shape_stack(c["inner"], o)
        if not empty_stack_shape(si):
            inner = si          # an inner stack that contributes no lines is indistinguishable from none
    kids = []
    for ch in c["children"]:
        if ch["t"] == "ctx":
            k = shape_ctx(ch["ctx"], o)
            if k is not None:
                kids.append({"k": "child", "blank": False, "body": {"inner": k["inner"], "kids": k["kids"], "stack": None}})
        else:
            ss = shape_stack(ch["st"], o)
            kids.append({"k": "child", "blank": False, "body": {"inner": None, "kids": [], "stack": None if empty_stack_shape(ss) else ss}})
    return {"inner": inner, "kids": kids}


# ---------------------------------------------------------------- the reader
class Reader:
    def __init__(self, lines):
        # a line = (markers, payload kind)
        # blank separator lines carry no nesting information (they set off populated child task stacks): dropped
        self.lines = [(list(l["m"]), l["p"][0]) for l in lines if l["p"][0] != "blank"]

    def read(self):
        assert self.lines[0] == ([], "hdr")
        st, rest = self.read_stack(self.lines[1:], 0)
        assert not rest, rest[:3]
        return st

    def read_stack(self, lines, depth):
        """lines whose markers[depth:] belong to a stack body; returns (shape, remaining lines)"""
        frames = []
        leaf, error = False, 0
        i = 0
        while i < len(lines):
            m, p = lines[i]
            mm = m[depth:]
            if not mm:
                break
            if mm[0] == "SF":
                j = i + 1
                while j < len(lines) and lines[j][0][depth:depth + 1] == ["CF"]:
                    j += 1
                frames.append(self.read_frame(lines[i:j], depth + 1))
                i = j
            elif mm[0] == "LEAF":
                leaf = True
                i += 1
            elif mm[0] == "ERR":
                while i < len(lines) and lines[i][0][depth:depth + 1] == ["ERR"] and lines[i][1] in ("errhdr", "err"):
                    if lines[i][1] == "err":
                        error += 1
                    i += 1
            else:
                break
        return {"frames": frames, "leaf": leaf, "error": error}, lines[i:]

    def read_frame(self, lines, depth):
        """lines of one frame: markers[depth-1] is SF (first) / CF (rest); markers[depth:] is the frame's own layer"""
        assert lines[0][1] == "frame"
        ctxs = []
        code = False
        i = 1
        while i < len(lines):
            mm = lines[i][0][depth:]
            if mm[:1] == ["SC"]:
                j = i + 1
                while j < len(lines) and lines[j][0][depth:depth + 1] in (["CC"], ["SCC"]):
                    j += 1
                ctxs.append(self.read_ctx(lines[i:j], depth + 1))
                i = j
            elif mm[:1] == ["COD"]:
                code = True
                i += 1
            else:
                raise AssertionError("unexpected frame line %r" % (lines[i],))
        return {"ctxs": ctxs, "code": code}

    def read_ctx(self, lines, depth):
        """lines of one context; layer marker already consumed up to depth; an SCC line means: next token is SCH"""
        body = []
        for m, p in lines[1:]:
            layer = m[depth - 1]
            rest = m[depth:]
            if layer == "SCC":
                rest = rest            # "├─" stands for the continue marker; the child indicator follows in rest
            body.append((rest, p))
        return self.read_ctx_body(body)

    def read_ctx_body(self, body):
        """body lines relative to the context: inner stack lines (SF/CF/LEAF/ERR first) then children (SCH/CCH first)"""
        i = 0
        inner_lines = []
        while i < len(body) and body[i][0][:1] and body[i][0][0] in ("SF", "CF", "LEAF", "ERR"):
            inner_lines.append(body[i])
            i += 1
        inner = None
        if inner_lines:
            inner, rest = self.read_stack(inner_lines, 0)
            assert not rest
        kids = []
        pending_blank = False
        while i < len(body):
            m, p = body[i]
            assert m[:1] == ["SCH"], (m, p)
            j = i + 1
            while j < len(body) and body[j][0][:1] == ["CCH"]:
                j += 1
            chunk = [(mm[1:], pp) for mm, pp in body[i:j]]
            blank = False
            first = chunk[0]
            rest = chunk[1:]
            if first[1] == "childroot":
                sshape = None
                if rest:
                    sshape, rem = self.read_stack(rest, 0)
                    assert not rem, rem[:2]
                kids.append({"k": "child", "blank": blank or False, "body": {"inner": None, "kids": [], "stack": sshape}})
            else:
                sub = self.read_ctx_body(rest)
                kids.append({"k": "child", "blank": False, "body": {"inner": sub["inner"], "kids": sub["kids"], "stack": None}})
            pending_blank = False
            i = j
        return {"inner": inner, "kids": kids}

    @staticmethod
    def starts_child(body, j):
        return j < len(body) and body[j][0][:1] == ["SCH"]


def roundtrip_and_injectivity(cases):
    n = 0
    by_text = {}
    problems = []
    for c in cases:
        o = {"ctx": c["ctx"], "hidden": c["hidden"]}
        want = shape_stack(c["tree"], o)
        try:
            got = Reader(c["lines"]).read()
        except AssertionError as ex:
            problems.append("tree %d (ctx=%s hidden=%s): the marker lines cannot be read back: %r" % (c["tid"], c["ctx"], c["hidden"], ex))
            continue
        n += 1
        if normalise(got) != normalise(want):
            problems.append("tree %d (ctx=%s hidden=%s): reading the text back gives another nesting:\n read %s\n tree %s" % (
                c["tid"], c["ctx"], c["hidden"], json.dumps(normalise(got))[:400], json.dumps(normalise(want))[:400]))
        key = json.dumps([[l["m"], l["p"][0]] for l in c["lines"]])
        prev = by_text.setdefault(key, (normalise(want), c["tid"]))
        if prev[0] != normalise(want):
            problems.append("trees %d and %d have different nestings but the same rendering" % (prev[1], c["tid"]))
    return n, problems


def normalise(x):
    """populated-child blank attribute: only meaningful for child stacks with lines"""
    if isinstance(x, dict):
        d = {k: normalise(v) for k, v in x.items()}
        if d.get("k") == "child" and d["body"]["stack"] is None and not d["body"]["kids"] and d["body"]["inner"] is None:
            pass
        return d
    if isinstance(x, list):
        return [normalise(v) for v in x]
    return x
