"""C09 -- generator-based managers and exit stacks unfold into the exact nested tree.
Spec: CtxTree.tla (ExitStackOps + Unfold) on given manager trees; binding: real trees built, extracted, compared;
for exit stacks the abstract callback list is compared after EACH registration operation on the live object."""
import copy
import itertools
import json
import random
from concurrent.futures import ThreadPoolExecutor

from ..common import BUILD, VERIF, MachineryError, available_interpreters, child_env, run
from ..tlc import run_tlc

SYNC_OPS = ["enter_context", "push_mgr", "push_fn", "push_method", "callback"]
ASYNC_OPS = ["enter_async_context", "push_async_exit_mgr", "push_async_exit_fn", "push_async_exit_method", "push_async_callback"]
MGR_OPS = {"enter_context": False, "push_mgr": False, "enter_async_context": True, "push_async_exit_mgr": True}


def plain(a):
    return {"k": "plain", "async": a, "yf": False, "bp": False, "body": [], "ops": [], "popped": 0, "suspend": False}


def gcm(a, body, yf=False, bp=False):
    """bp: made by the async_generator backport (asynccontextmanager over an @async_generator function)"""
    return {"k": "gcm", "async": a, "yf": yf, "bp": bp, "body": body, "ops": [], "popped": 0, "suspend": False}


def stack(a, ops):
    return {"k": "stack", "async": a, "yf": False, "bp": False, "body": [], "ops": ops, "popped": 0, "suspend": False}


def op(name, node=None):
    return {"op": name, "node": node if node is not None else plain(False)}


def renumber(root):
    n = [0]

    def go(x):
        n[0] += 1
        x["id"] = n[0]
        for c in x["body"]:
            go(c)
        for o in x["ops"]:
            go(o["node"])
    go(root)
    return root


def level1():
    ps, pa = plain(False), plain(True)
    out = [ps, pa]
    for yf in (False, True):
        for body in ([], [ps], [ps, ps]):
            out.append(gcm(False, body, yf))
    for body in itertools.chain([[]], ([x] for x in (ps, pa)), ([x, y] for x in (ps, pa) for y in (ps, pa))):
        out.append(gcm(True, body))
    for body in ([], [ps], [pa], [pa, ps]):
        out.append(gcm(True, body, bp=True))
    return out


def ops_for(a, nodes_sync, nodes_async, rng=None):
    names = SYNC_OPS + (ASYNC_OPS if a else []) + ["pop_all", "close"]
    res = []
    for name in names:
        if name in MGR_OPS:
            pool = nodes_async if MGR_OPS[name] else nodes_sync
            if name in ("push_mgr", "push_async_exit_mgr"):
                # pushed, not entered: plain managers, and generator-based ones whose generator has NOT started
                pool = [x for x in pool if x["k"] in ("plain", "gcm")]
            res.append([op(name, x) for x in pool])
        else:
            res.append([op(name)])
    return res


def stacks_level1(maxlen):
    ps, pa = plain(False), plain(True)
    out = []
    for a in (False, True):
        choices = [c[0] for c in ops_for(a, [ps], [pa])]
        for n in range(1, maxlen + 1):
            for seq in itertools.product(choices, repeat=n):
                out.append(stack(a, list(seq)))
    return out


def level2(n, seed):
    rng = random.Random(seed)
    l1 = level1()
    sync_nodes = [x for x in l1 if not x["async"]]
    async_nodes = [x for x in l1 if x["async"]]
    small_stacks = stacks_level1(1)
    out = []
    for _ in range(n):
        r = rng.random()
        if r < 0.4:
            a = rng.random() < 0.6
            pool = (sync_nodes + async_nodes + small_stacks) if a else (sync_nodes + [s for s in small_stacks if not s["async"]])
            body = [rng.choice(pool) for _ in range(rng.choice([1, 2]))]
            yf = (not a) and rng.random() < 0.4
            out.append(gcm(a, body, yf))
        else:
            a = rng.random() < 0.6
            opsets = ops_for(a, sync_nodes + [s for s in small_stacks if not s["async"]], async_nodes + [s for s in small_stacks if s["async"]])
            k = rng.choice([1, 2, 3, 3, 4])
            seq = []
            for _ in range(k):
                group = rng.choice(opsets[:-2]) if rng.random() < 0.85 else rng.choice(opsets[-2:])
                seq.append(rng.choice(group))
            out.append(stack(a, seq))
    return out


def check(ctx):
    ctx.explanation = ("CtxTree.tla defines ExitStackOps (the callback list under every registration method, pop_all, close, and "
                       "how each callback must be classified, with the unavoidable push(manager) == enter_context(manager) "
                       "equivalence stated) and Unfold (the Context tree of a manager tree: inner_stack iff generator-based and "
                       "not exiting, one child per callback in order, recursively); all trees of depth 1, all operation "
                       "sequences of length <= 2 (thorough 3) and sampled deeper trees are built for real, a carrier coroutine "
                       "is suspended inside (or while exiting) the root, and the extracted tree is compared node by node "
                       "(obj identity, is_async, is_exiting, inner frames and their contexts, children and their registration "
                       "method); for root exit stacks the comparison is made after each operation on the live stack")
    maxlen = 2 if ctx.tier == "quick" else 3
    trees = [json.loads(json.dumps(t)) for t in level1() + stacks_level1(maxlen) + level2(250 if ctx.tier == "quick" else 3000, ctx.seed + 9)]
    entries = []   # Given entries
    cases = []
    for t in trees:
        renumber(t)
        main = len(entries)
        entries.append({"root": t, "exiting": False})
        case = {"root": t, "exiting": False, "entry": main}
        if t["k"] == "stack" and t["ops"]:
            pref = []
            for k in range(1, len(t["ops"]) + 1):
                pref.append(len(entries))
                entries.append({"root": dict(t, ops=t["ops"][:k]), "exiting": False})
            case["stepwise_entries"] = pref
        cases.append(case)
        if t["async"] and t["k"] in ("plain", "gcm"):
            e = len(entries)
            entries.append({"root": t, "exiting": True})
            cases.append({"root": t, "exiting": True, "entry": e})
        if t["async"] and t["k"] == "stack" and not any(o["op"] in ("pop_all", "close") for o in t["ops"]):
            # observed while the stack is unwinding: one more async manager, registered last, suspends in its
            # __aexit__; it has been popped, every earlier registration is still pending
            t2 = json.loads(json.dumps(t))
            last = plain(True)
            last["suspend"] = True
            t2["ops"].append(op("enter_async_context", last))
            t2["popped"] = 1
            renumber(t2)
            e = len(entries)
            entries.append({"root": t2, "exiting": True})
            cases.append({"root": t2, "exiting": True, "entry": e})
    d = BUILD / "c09"
    d.mkdir(parents=True, exist_ok=True)
    gpath = d / "given.json"
    gpath.write_text(json.dumps(entries))
    res = ctx.tlc(run_tlc("CtxTree", "CtxTree.cfg", workers=1, timeout=1800, env={"CT_GIVEN": str(gpath)}, name="ctxtree"),
                  "Unfold / ExitStackOps on given trees")
    if not res.ok:
        ctx.violation(f"model: {res.violated}", res.trace_text[-3000:])
        return
    exp = {e["tid"]: e["expected"] for e in res.emitted}
    if len(exp) != len(entries):
        raise MachineryError("missing expectations")
    out_cases = []
    for i, c in enumerate(cases):
        oc = {"tid": i, "root": c["root"], "exiting": c["exiting"], "expected": exp[c["entry"] + 1]}
        if "stepwise_entries" in c:
            oc["stepwise"] = [exp[e + 1] for e in c["stepwise_entries"]]
            out_cases.append(dict(oc))            # once all at once (registered before entering) ...
            oc2 = dict(oc)
            del oc["stepwise"]
            out_cases[-1] = oc
            out_cases.append(oc2)                 # ... and once operation by operation on the live stack
        else:
            out_cases.append(oc)
    cpath = d / "cases.json"
    cpath.write_text(json.dumps({"cases": out_cases}))
    interps = available_interpreters()

    def one(item):
        v, py = item
        opath = d / f"out_{v}.json"
        p, _ = run([py, str(VERIF / "harness/drivers/tree_driver.py"), str(cpath), str(opath)], timeout=1800, env=child_env(v))
        if p.returncode != 0:
            raise MachineryError(f"tree driver failed under {v}: {p.stderr[-2000:]}")
        return v, json.loads(opath.read_text())

    with ThreadPoolExecutor(4) as ex:
        outs = dict(ex.map(one, interps.items()))
    ctx.note("interpreters", sorted(outs))
    ctx.note("trees", len(trees))
    ctx.note("cases_incl_stepwise_and_exiting", len(out_cases))
    for v, o in outs.items():
        ctx.replays += o["n"]
        for mm in o["mismatches"]:
            if any("harness exception" in b for b in mm["bad"]):
                raise MachineryError(f"[{v}] {mm['bad'][0]}\n{json.dumps(mm['root'])[:600]}")
            ctx.violation(f"[{v}] tree {json.dumps(mm['root'])[:300]} exiting={mm['exiting']}: " + "; ".join(mm["bad"][:4]), mm)
    ctx.sample({"tree": trees[40], "expected": exp[cases[40]["entry"] + 1]})
