"""C10 -- frame hooks: unwrap to a fixpoint; elaborate_frame edits only the inward rest.
Spec: ExtractIter (EquivRef, NeverEscapes, Terminates); binding: given-table replay on the real code."""
from ..common import MachineryError
from ..tlc import derive_cfg, require_coverage, run_tlc
from .. import m1

ACTIONS = ["PopFrame", "Unwrap", "ToElab", "ReachLeaf", "Elab"]


def model(ctx):
    # pattern I: algorithm == documented rules for all tables in the bound
    r = ctx.tlc(run_tlc("MC_ExtractIter", "EI_core.cfg", timeout=900), "EquivRef+NeverEscapes, all tables (2 frames, 2 wrappers, 1 leaf, results <= 2)")
    if not r.ok:
        ctx.violation(f"model: {r.violated} violated by the repaired algorithm: {r.trace_actions}", r.trace_text[-3000:])
    require_coverage(r, ACTIONS)
    g = ctx.tlc(run_tlc("MC_ExtractIter", "EI_guard.cfg", timeout=900), "guard: cyclic tables terminate with a recorded error (liveness under WF)")
    if not g.ok:
        ctx.violation(f"model: guard config: {g.violated}: {g.trace_actions}", g.trace_text[-3000:])
    if ctx.tier == "thorough":
        c = derive_cfg("EI_core.cfg", "EI_core_big.cfg", {"NF": "3", "ETargetSet": "{1, 2, 3, 5}", "Roots": "{4}"})
        r = ctx.tlc(run_tlc("MC_ExtractIter", c, timeout=3000), "EquivRef, 3 frames")
        if not r.ok:
            ctx.violation(f"model(3 frames): {r.violated}: {r.trace_actions}", r.trace_text[-3000:])


def finding_f12(ctx):
    """F12: branching unwrap cycles never end.  Reported only while both the model and the real code show it."""
    from ..common import VERIF, VENV_PY, child_env, run
    import json
    b = ctx.tlc(run_tlc("MC_ExtractIter", "EI_guard_branch.cfg", timeout=300), "F12: branching cycle, second guard trip")
    p, _ = run([VENV_PY, str(VERIF / "harness/drivers/m1_f12.py")], timeout=120, env=child_env("3.12"))
    if p.returncode != 0:
        raise MachineryError("F12 probe failed: " + p.stderr[-1000:])
    got = json.loads(p.stdout.strip().splitlines()[-1])
    ctx.note("F12_probe", got)
    if got["hang"]:
        if b.violated != "OneGuardTripEnds":
            raise MachineryError("F12 reproduces on the code but the model does not show it")
        ctx.known("F12", "x -> [x, x]: still unwrapping after %d calls; model trace %s" % (got["calls"], b.trace_actions[-6:]))


def conformance(ctx, only=("frames", "leaf", "pc", "extract_outermost")):
    n = 1500 if ctx.tier == "quick" else 12000
    tables = m1.curated() + m1.random_tables(n, ctx.seed + 10)
    res = ctx.tlc(m1.spec_results(tables, "c10"), "given tables: spec terminal states")
    if not res.ok:
        ctx.violation(f"model(given tables): {res.violated}: {res.trace_actions}", res.trace_text[-3000:])
        return
    outs = m1.replay(tables, res, "c10")
    ctx.note("interpreters", sorted(outs))
    ctx.note("table_sets_generated", len(tables))
    ctx.note("table_sets_terminating_in_spec", len(res.emitted))
    for v, o in outs.items():
        ctx.replays += o["n"]
        for mm in o["mismatches"]:
            case = o["cases"][mm["tid"]]
            ctx.violation(f"[{v}] tables {json_short(case)}: " + "; ".join(mm["bad"]), {"case": case, "got": mm["got"], "interpreter": v})
    if res.emitted:
        case = outs[sorted(outs)[0]]["cases"][res.emitted[0]["tid"]]
        ctx.sample({"tables": {k: case[k] for k in ("root", "U", "E", "C")}, "spec_terminal_state": case["expect"]})


def json_short(case):
    import json
    return json.dumps({k: case[k] for k in ("U", "E", "C")})[:400]


def check(ctx):
    ctx.explanation = ("ExtractIter.tla models extract_iter's two-deque algorithm action by action and the documented "
                       "unwrap/elaborate rules as a recursive reference; TLC checks algorithm == reference for every pair "
                       "of hook tables in the bound; given-table behaviours are replayed through the public hook API on "
                       "real frames under each interpreter and compared with the spec's terminal state")
    ctx.assume("hook results are functions of the item/frame (deterministic hooks); elaborate results that re-create "
               "their own frame for ever are cut by the state constraint (not covered by the property's guard clause)")
    model(ctx)
    conformance(ctx)
    finding_f12(ctx)
