"""C19 -- standard-library summaries and flat format faithfully project the Stack.
Spec: Format.tla (Entries: which entries, in which order, at which line, for which element)."""
from .. import m10
from ..common import MachineryError


def check(ctx):
    ctx.explanation = ("Format.tla's Entries(stack, show_contexts, show_hidden) gives the sequence of summary entries (one per "
                       "visible frame; with contexts: an entry per visible context at its with-line or the frame's line, its "
                       "inner stack with contexts, its child contexts, and the frame's own entry unless its last context is "
                       "exiting); for every generated tree x option set the real as_stdlib_summary() is compared entry by entry "
                       "(file, line, name with annotation), with and without capture_locals, pickled and unpickled, searched for "
                       "reachable frame objects, and format_flat() is compared with header + StackSummary.format() + leaf + error")
    ctx.assume("trees are those of C18 (abstract trees rendered onto real frames); payload text opaque")
    ts, cases, outs = m10.spec_and_real(ctx, 700, 8000)
    if ts is None:
        return
    for v, o in outs.items():
        ctx.replays += o["n"]
        for mm in o["mismatches19"]:
            if any(b.startswith("harness") for b in mm["bad"]):
                raise MachineryError(str(mm)[:800])
            ctx.violation(f"[{v}] tree {mm['tid']} show_contexts={mm['ctx']} show_hidden={mm['hidden']}: " + " | ".join(mm["bad"])[:900], mm)
    ctx.sample({"tree": ts[3], "entries": cases[0]["entries"][:8]})
    # the same specification on trees converted from REAL extracted stacks
    rbad, rn, _ = m10.real_corpus(ctx, "summary")
    ctx.replays += rn
    ctx.note("real_stack_summaries", rn)
    for b in rbad[:8]:
        ctx.violation(b[:900], None)
