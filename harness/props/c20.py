"""C20 -- fallback analysis is a sound ordered over-approximation; failures only warn.
Spec: WithLang (ObsReferents relaxation evaluated by the runner), Trickery.tla (mode switch)."""
from .. import m7


def check(ctx):
    ctx.explanation = ("the C01 program space observed with set_trickery_enabled(False): the reported list must be an ordered "
                       "super-sequence of the truly active managers (right obj and is_async), extras only the manager being "
                       "entered/exited, exactly one is_exiting entry iff an exit call is in progress")
    m7.explore(ctx, "referents", 150, 3000, seed_off=6, quick_stride=2)
    # faults inside the trickery analysis: must only warn and fall back to a sound result
    ctx.explanation += ("; at every suspension of every behaviour an exception is injected into each internal step of the "
                        "trickery analysis (analyze_with_blocks, inspect_frame, currently_exiting_context): the call must emit "
                        "exactly InspectionWarning(s), not raise, and its result must obey the same relaxed rule")
    m7.explore(ctx, "trickfault", 40, 1500, seed_off=7, quick_stride=5)

    # the mode switch: Trickery.tla, every sequence of 5 set / extract operations on two threads, replayed on real threads
    import json
    from concurrent.futures import ThreadPoolExecutor
    from ..common import BUILD, VERIF, MachineryError, available_interpreters, child_env, run
    from ..tlc import run_tlc
    ctx.explanation += ("; Trickery.tla models set_trickery_enabled and the caching self-test at the grain of the code (lock-free "
                        "check, lock acquisition, re-check + self-test under the lock): every sequence of 5 (thorough 6; invariants on 7) steps of "
                        "two threads is replayed on real threads, which are held at the lock's entry and inside it by a gate "
                        "wrapped around the lock, and the implementation each extraction used (identified from start_line / "
                        "varname being filled) is compared with the spec's; the same model without the re-check must be rejected "
                        "by TLC (lost update of an explicit setting)")
    from ..tlc import derive_cfg
    if ctx.tier != "quick":
        # thorough: the invariants on every history of 7 steps (1.4 million states; not exported) ...
        r7 = ctx.tlc(run_tlc("Trickery", derive_cfg("Trickery.cfg", "Trickery7.cfg", {"MaxSteps": "7"}, drop=["CONSTRAINT"]),
                             timeout=1800, name="trick7"), "mode switch, invariants on all histories of 7 steps")
        if not r7.ok:
            ctx.violation(f"model (Trickery, 7 steps): {r7.violated}", r7.trace_text[-1500:])
            return
    # ... and every history of 5 (thorough: 6) steps exported for the replay
    tcfg = "Trickery.cfg" if ctx.tier == "quick" else derive_cfg("Trickery.cfg", "Trickery6.cfg", {"MaxSteps": "6"})
    r = ctx.tlc(run_tlc("Trickery", tcfg, workers=1, timeout=1800, name="trick"), "mode switch, all sequences of 5 (thorough: 6) steps")
    if not r.ok:
        ctx.violation(f"model (Trickery): {r.violated}", r.trace_text[-1500:])
        return
    # non-vacuity: the design without the re-check under the lock loses an explicit setting, and TLC must say so
    rn = run_tlc("Trickery", derive_cfg("Trickery.cfg", "Trickery_norecheck.cfg", {"NoRecheck": "TRUE"}), workers=1, timeout=900,
                 name="trick_norecheck")
    ctx.states += rn.distinct
    if rn.ok or not rn.violated:
        raise MachineryError("Trickery.tla without the re-check under the lock was NOT rejected: the mode-switch properties are vacuous")
    apalache_leg(ctx)
    seen, behs = set(), []
    for e in r.emitted:
        k = json.dumps(e["acts"])
        if k not in seen:
            seen.add(k)
            behs.append(e)
    d = BUILD / "c20"
    d.mkdir(parents=True, exist_ok=True)
    (d / "trick.json").write_text(json.dumps({"behaviours": behs}))

    def one(item):
        v, py = item
        opath = d / f"trick_out_{v}.json"
        p, _ = run([py, str(VERIF / "harness/drivers/trickery_driver.py"), str(d / "trick.json"), str(opath)], timeout=900, env=child_env(v))
        if p.returncode != 0:
            raise MachineryError(f"trickery driver failed under {v}: {p.stderr[-1500:]}")
        return v, json.loads(opath.read_text())

    with ThreadPoolExecutor(4) as ex:
        outs = dict(ex.map(one, available_interpreters().items()))
    for v, o in outs.items():
        ctx.replays += o["n"]
        for mm in o["mismatches"]:
            ctx.violation(f"[{v}] mode switch, operations {mm['acts']}: {mm['bad']}", mm)


def apalache_leg(ctx):
    """unbounded: the inductive invariant of the mode switch (spec/apalache/TrickeryInd.tla), discharged by Apalache for any
    number of steps of three threads; the same module without the re-check under the lock must fail the induction step"""
    import re
    import shutil
    import subprocess
    from ..common import BUILD, VERIF, MachineryError
    exe = shutil.which("apalache-mc")
    if exe is None:
        ctx.assume("apalache-mc not found: the inductive invariant of the mode switch was not discharged in this run")
        return
    src = (VERIF / "spec/apalache/TrickeryInd.tla").read_text()
    d = BUILD / "apalache"
    shutil.rmtree(d, ignore_errors=True)
    d.mkdir(parents=True)
    (d / "TrickeryInd.tla").write_text(src)
    broken = src.replace('mode\' = (IF mode # "none" THEN mode ELSE "on")', 'mode\' = "on"').replace("MODULE TrickeryInd", "MODULE TrickeryIndNoRecheck")
    if broken.count('mode\' = "on"') != 1:
        raise MachineryError("could not derive the no-re-check variant of TrickeryInd.tla")
    (d / "TrickeryIndNoRecheck.tla").write_text(broken)

    def run(mod, init, length):
        p = subprocess.run([exe, "check", f"--init={init}", "--inv=IndInv", f"--length={length}", f"--out-dir={d / 'out'}", f"{mod}.tla"],
                           cwd=d, capture_output=True, text=True, timeout=900)
        m = re.search(r"EXITCODE: (\w+)", p.stdout)
        return (m.group(1) if m else "?"), p.stdout[-1500:]
    base, t0 = run("TrickeryInd", "Init", 0)
    step, t1 = run("TrickeryInd", "IndInit", 1)
    neg, t2 = run("TrickeryIndNoRecheck", "IndInit", 1)
    shutil.rmtree(d / "out", ignore_errors=True)
    if base != "OK" or step != "OK":
        if "ERROR" in (base, step) and ("violat" in (t0 + t1).lower() or "counterexample" in (t0 + t1).lower()):
            ctx.violation("model (TrickeryInd, Apalache): the invariant of the mode switch is not inductive", (t0 + t1)[-1500:])
            return
        raise MachineryError(f"apalache failed on TrickeryInd.tla: base {base}, step {step}: {(t0 + t1)[-800:]}")
    if neg == "OK":
        raise MachineryError("TrickeryInd without the re-check under the lock passed the induction step: the invariant is vacuous")
    ctx.count("apalache_inductive_checks", 2)
    ctx.explanation += ("; unbounded: the inductive invariant TypeOK /\\ LockDiscipline /\\ ModeFollowsLastSet of the mode switch "
                        "(spec/apalache/TrickeryInd.tla, three threads, any number of steps) is discharged by Apalache (Init => IndInv, "
                        "IndInv /\\ Next => IndInv'), and the variant without the re-check fails the step")
