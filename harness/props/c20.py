"""C20 -- fallback analysis is a sound ordered over-approximation; failures only warn.
Spec: WithLang (ObsReferents relaxation evaluated by the runner), Trickery.tla (mode switch)."""
from .. import m7


def check(ctx):
    ctx.explanation = ("the C01 program space observed with set_trickery_enabled(False): the reported list must be an ordered "
                       "super-sequence of the truly active managers (right obj and is_async), extras only the manager being "
                       "entered/exited, exactly one is_exiting entry iff an exit call is in progress")
    m7.explore(ctx, "referents", 150, 3000, seed_off=6)
    # faults inside the trickery analysis: must only warn and fall back to a sound result
    ctx.explanation += ("; at every suspension of every behaviour an exception is injected into each internal step of the "
                        "trickery analysis (analyze_with_blocks, inspect_frame, currently_exiting_context): the call must emit "
                        "exactly InspectionWarning(s), not raise, and its result must obey the same relaxed rule")
    m7.explore(ctx, "trickfault", 40, 1500, seed_off=7, quick_stride=3)
