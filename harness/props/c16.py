"""C16 -- Frame.origin and extract_outermost keep their documented contracts.
Spec: ExtractIter (OriginContract, OutermostIsFirst) on the chain space of Chains.tla (suspended and running)
and on synthetic tables."""
from ..tlc import run_tlc, require_coverage
from . import c03
from .. import m1


def check(ctx):
    ctx.explanation = ("the origin contract and extract_outermost == first frame are evaluated (a) by TLC on ExtractIter with "
                       "generator-type wrappers, (b) on every real chain of Chains.tla, suspended and running, through the "
                       "public API and through the recorded traces' model verdict, (c) on synthetic table sets (custom items "
                       "with and without frames, items that fail to unwrap)")
    # (a) model: origin contract for all tables with generator-type wrappers; F5 appears as the excuse
    r = ctx.tlc(run_tlc("MC_ExtractIter", "EI_origin.cfg", timeout=900), "OriginContractX + OutermostIsFirst, all tables with generator-type wrappers")
    if not r.ok:
        ctx.violation(f"model: {r.violated}: {r.trace_actions}", r.trace_text[-3000:])
    require_coverage(r, ["PopFrame", "Unwrap", "Elab", "ReachLeaf"])
    # (b) chains
    c03.explore(ctx, for_c16=True)
    # (c) synthetic tables: extract_outermost == first frame / raises iff no frames (driver compares)
    n = 800 if ctx.tier == "quick" else 6000
    tables = m1.curated() + m1.random_tables(n, ctx.seed + 16)
    res = ctx.tlc(m1.spec_results(tables, "c16"), "given tables")
    if not res.ok:
        ctx.violation(f"model(given tables): {res.violated}", res.trace_text[-2000:])
        return
    outs = m1.replay(tables, res, "c16")
    for v, o in outs.items():
        ctx.replays += o["n"]
        for mm in o["mismatches"]:
            if any("extract_outermost" in b for b in mm["bad"]):
                ctx.violation(f"[{v}] tables {mm['tid']}: " + "; ".join(mm["bad"]), {"case": o["cases"][mm["tid"]], "got": mm["got"]})
