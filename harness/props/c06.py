"""C06 -- extraction is a pure observation: no perturbation, repeatable, nothing retained.
Spec: WithLang + Observe (a stuttering step; ObserveIsStutter): the recorded history of an observed run must
still be the behaviour TLC computed for the un-observed program."""
from .. import m7


def check(ctx):
    ctx.explanation = ("each TLC behaviour is replayed three times per carrier: un-observed, observed at every suspension, and "
                       "observed at a seeded subset with 1-3 repetitions; the event history (which must keep matching the spec's "
                       "behaviour step by step), yielded values and outcome must be identical; repeated extractions of the "
                       "unchanged target must compare equal; after dropping the stacks every manager must be collectable; "
                       "a value-stack sentinel's refcount must return to baseline; the runner subprocess must exit 0")
    ctx.assume("reference counts / collectability / no-crash are measured on the explored behaviours (exploration-level for that clause)")
    m7.explore(ctx, "purity", 60, 600, seed_off=4, quick_stride=15, thorough_stride=2)

    trio_leg(ctx)


def trio_leg(ctx):
    """differential leg under Trio (3.12 / the project venv): enumerated programs with cancel scopes whose deadline is absent,
    ahead, passed-but-unnoticed or already cancelled, observed from the task itself, a sibling, the root"""
    import json
    from ..common import BUILD, VERIF, MachineryError, available_interpreters, child_env, run
    interps = available_interpreters(("3.12",))
    if "3.12" not in interps:
        ctx.assume("no interpreter with trio: the Trio purity leg did not run")
        return
    d = BUILD / "c06"
    d.mkdir(parents=True, exist_ok=True)
    opath = d / "purity_trio.json"
    p, _ = run([interps["3.12"], str(VERIF / "harness/drivers/purity_trio_driver.py"), str(opath)], timeout=900, env=child_env("3.12"))
    if p.returncode != 0:
        raise MachineryError(f"trio purity driver failed: {p.stderr[-1500:]}")
    o = json.loads(opath.read_text())
    ctx.replays += o["n"]
    ctx.count("trio_programs_run_observed_and_unobserved", o["n"])
    ctx.count("trio_extractions", o["extractions"])
    ctx.explanation += ("; under Trio, 96 enumerated programs (scope kind x deadline none / ahead / passed but not yet noticed / "
                        "cancelled x shield x observer position) run un-observed and observed under a virtual clock: log, "
                        "result and the raw slot state of every scope / nursery must be identical")
    for mm in o["mismatches"]:
        if mm["bad"].startswith("harness"):
            raise MachineryError(mm["bad"])
        ctx.violation(f"[3.12] Trio program ({mm['case']}): {mm['bad']}", mm)
