"""C06 -- extraction is a pure observation: no perturbation, repeatable, nothing retained.
Spec: WithLang + Observe (a stuttering step; ObserveIsStutter): the recorded history of an observed run must
still be the behaviour TLC computed for the un-observed program."""
from .. import m7


def check(ctx):
    ctx.explanation = ("each TLC behaviour is replayed three times per carrier: un-observed, observed at every suspension, and "
                       "observed at a seeded subset with 1-3 repetitions; the event history (which must keep matching the spec's "
                       "behaviour step by step), yielded values and outcome must be identical; repeated extractions of the "
                       "unchanged target must compare equal; after dropping the stacks every manager must be collectable; "
                       "a value-stack sentinel's refcount must return to baseline; the runner subprocess must exit 0")
    ctx.assume("reference counts / collectability / no-crash are measured on the explored behaviours (exploration-level for that clause)")
    m7.explore(ctx, "purity", 60, 600, seed_off=4, quick_stride=15, thorough_stride=2)
