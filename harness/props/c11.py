"""C11 -- context hooks: elaborate, unwrap, re-elaborate until steady state.
Spec: FillContext.tla on given hook tables; binding: replay through the public hooks (and the contextlib glue for
generator-based managers), outside and inside an extraction."""
import itertools
import json
import random
from concurrent.futures import ThreadPoolExecutor

from ..common import BUILD, VERIF, MachineryError, available_interpreters, child_env, run
from ..tlc import require_coverage, run_tlc

N = 4
ES = ["none", "desc", "children", "inner", "obj"]
US_PLAIN = ["none", "prune", "next"]
US_GCM = ["none", "prune", "next", "unreg"]


def table(kind, E, Eobj, U, Unext, start=1, exiting=False):
    return {"kind": kind, "E": E, "Eobj": Eobj, "U": U, "Unext": Unext, "start": start, "exiting": exiting}


def structured():
    """all chains 1 -> 2 -> 3 -> 4 of length 0..4 over every kind vector, every ending, every elaborate effect on the
    first link, exiting or not; plus cycles (self, 2-cycles) for the guard"""
    out = []
    for kinds in itertools.product(["plain", "gcm"], repeat=N):
        for length in range(0, N):
            for ending in ("none", "prune", "unreg"):
                for e1 in ES:
                    for exiting in (False, True):
                        U, Unext = [], []
                        for i in range(1, N + 1):
                            if i <= length:
                                U.append("next")
                                Unext.append(i + 1)
                            else:
                                end = ending
                                if end == "unreg" and kinds[i - 1] == "plain":
                                    end = "none"
                                U.append(end)
                                Unext.append(1)
                        E = [e1] + ["none", "children", "inner"][:N - 1]
                        out.append(table(list(kinds), E, [2, 3, 4, 1], U, Unext, 1, exiting))
    for kinds in (["plain"] * N, ["gcm"] * N, ["plain", "gcm", "plain", "gcm"]):
        for exiting in (False, True):
            out.append(table(list(kinds), ["none"] * N, [1] * N, ["next"] * N, [1, 1, 1, 1], 1, exiting))          # self
            out.append(table(list(kinds), ["desc"] * N, [1] * N, ["next"] * N, [2, 1, 1, 1], 1, exiting))          # 2-cycle
            out.append(table(list(kinds), ["obj", "none", "none", "none"], [2, 1, 1, 1], ["next"] * N, [1, 1, 1, 1], 1, exiting))
    return out


def random_tables(n, seed):
    rng = random.Random(seed)
    out = []
    for _ in range(n):
        kind = [rng.choice(["plain", "gcm"]) for _ in range(N)]
        E = [rng.choice(ES) for _ in range(N)]
        Eobj = [rng.randrange(1, N + 1) for _ in range(N)]
        U = [rng.choice(US_GCM if kind[i] == "gcm" else US_PLAIN) for i in range(N)]
        Unext = [rng.randrange(1, N + 1) for _ in range(N)]
        out.append(table(kind, E, Eobj, U, Unext, rng.randrange(1, N + 1), rng.random() < 0.4))
    return out


def check(ctx):
    ctx.explanation = ("FillContext.tla runs fill_context's loop (and the contextlib glue's two unwrap paths for generator-based "
                       "managers) on given hook tables: every chain 1->2->3->4 of length 0..4 over all plain/generator-based "
                       "kind vectors, endings None/PRUNE/unregistered, elaborate effects, exiting or not, cycles for the guard, "
                       "plus seeded random tables; TLC checks the call-pattern, reset-before-re-elaboration, prune-stops and "
                       "guard properties on each history; the same tables are installed through the public hooks, run outside "
                       "and inside an extraction, and the final Context and the call log are compared")
    tables = structured() + random_tables(1500 if ctx.tier == "quick" else 20000, ctx.seed + 11)
    d = BUILD / "m2"
    d.mkdir(parents=True, exist_ok=True)
    gpath = d / "given.json"
    gpath.write_text(json.dumps(tables))
    res = ctx.tlc(run_tlc("FillContext", "FillContext.cfg", workers=1, timeout=1800, env={"FC_GIVEN": str(gpath)}, name="fc"),
                  "fill_context loop on given tables")
    if not res.ok:
        ctx.violation(f"model: {res.violated}: {res.trace_actions}", res.trace_text[-3000:])
        return
    require_coverage(res, ["Elaborate", "Unwrap", "GuardTrip"])
    exp = {e["tid"]: e for e in res.emitted}
    cases = []
    for tid, t in enumerate(tables, start=1):
        if tid in exp:
            cases.append(dict(t, tid=tid, expect=exp[tid]))
    if len(cases) != len(tables):
        raise MachineryError(f"{len(tables) - len(cases)} table sets did not terminate in the spec")
    cpath = d / "cases.json"
    cpath.write_text(json.dumps({"cases": cases}))
    interps = available_interpreters()

    def one(item):
        v, py = item
        opath = d / f"out_{v}.json"
        p, _ = run([py, str(VERIF / "harness/drivers/fill_driver.py"), str(cpath), str(opath)], timeout=1800, env=child_env(v))
        if p.returncode != 0:
            raise MachineryError(f"fill driver failed under {v}: {p.stderr[-2000:]}")
        return v, json.loads(opath.read_text())

    with ThreadPoolExecutor(4) as ex:
        outs = dict(ex.map(one, interps.items()))
    ctx.note("interpreters", sorted(outs))
    ctx.note("table_sets", len(tables))
    for v, o in outs.items():
        ctx.replays += o["n"]
        for mm in o["mismatches"]:
            ctx.violation(f"[{v}] tables {json.dumps(mm['case'])[:300]} inside={mm['inside']}: " + "; ".join(mm["bad"]), mm)
    ctx.sample({"tables": tables[len(tables) // 3], "spec_terminal_state": exp[len(tables) // 3 + 1]})
