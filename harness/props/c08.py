"""C08 -- context metadata: start_line is the with line, varname the real `as` target.
Spec: WithLang (which manager is reported where) + the program AST (line of the with keyword, target form)."""
from .. import m7


def check(ctx):
    ctx.explanation = ("every with statement of the WithLang program space plus a systematic sweep of 28 target forms x 6 line "
                       "layouts x sync/async x 1..3 items; at every suspension each reported context's start_line must be the "
                       "line of its with keyword and varname must be None / parse to the item's target (list unpacking rendered "
                       "as tuple) / name a local bound to the manager when there is no target; supported forms may not be dropped")
    ctx.assume("the static leg of the property (every with statement of the standard library, unexecuted) has no behaviour to "
               "replay and is not claimed (DESIGN.md section 6)")
    m7.explore(ctx, "suspended", 60, 1500, seed_off=8, targets=True, accept=lambda mm: bool(mm.get("meta")), quick_stride=2)
    import json
    ev = ctx.extra.get("per_interpreter", {})
    if not all(v["meta_checked"] > 0 for v in ev.values()):
        from ..common import MachineryError
        raise MachineryError("vacuous: no metadata checked")
