"""C03 -- a suspended await/yield-from chain extracts as the path an exception would take.
Spec: Chains.tla (chain space + built-in unwrap rules) and ExtractIter (trace validation of the real runs)."""
from .. import chains, m1
from ..common import MachineryError


def describe(case):
    return "%s / %s" % ([(l["k"], l["a"], l["via"]) for l in case["chain"]], case["term"])


def explore(ctx, for_c16=False):
    n = 3 if ctx.tier == "quick" else 4
    cases = chains.enumerate_chains(ctx, n)
    if not for_c16:
        cases = [c for c in cases if c["term"] != "run"]
    outs = chains.run_chains(cases, ctx.pid.lower())
    ctx.note("interpreters", sorted(outs))
    ctx.note("chains", len(cases))
    all_traces, owners = [], []
    skipped = 0
    for v, out in outs.items():
        for o in out:
            if o["idx"] == -1:
                if for_c16:
                    ctx.count("threads_greenlets_custom_items", o["other_items"])
                    for b in o["c16"]:
                        if b.startswith("harness"):
                            raise MachineryError(f"[{v}] {b}")
                        ctx.violation(f"[{v}] {b}", None)
                continue
            case = cases[o["idx"]]
            if "skip" in o:
                skipped += 1
                if o["skip"].startswith("harness"):
                    raise MachineryError(f"[{v}] {describe(case)}: {o['skip']}")
                continue
            ctx.replays += 1
            if not for_c16:
                for b in o["bad"]:
                    ctx.violation(f"[{v}] chain {describe(case)}: {b}", {"case": case, "interpreter": v})
            else:
                for b in o["c16"]:
                    ctx.violation(f"[{v}] chain {describe(case)}: {b}", {"case": case, "interpreter": v})
                if o.get("f5"):
                    # F5 was repaired in /repo (see known_findings.json): a fixed entry excuses nothing
                    ctx.violation(f"[{v}] chain {describe(case)}: frames {o['f5']} inherit the running root as origin (the F5 shape)",
                                  {"case": case, "interpreter": v})
            for t in o["traces"] + (o.get("c16_traces", []) if for_c16 else []):
                all_traces.append(t)
                owners.append((v, o["idx"]))
    # pattern T: every recorded extraction is a behaviour of ExtractIter
    if all_traces:
        res, verdicts = m1.validate_traces(all_traces, ctx.pid.lower())
        ctx.tlc(res, "trace validation of the recorded extractions (ExtractIterTrace)")
        for (v, idx), t, vd in zip(owners, all_traces, verdicts):
            case = cases[idx]
            if not vd["accepted"]:
                ev = t["events"][vd["prefix"]] if vd["prefix"] < len(t["events"]) else None
                ctx.violation(f"[{v}] chain {describe(case)}: recorded extraction is not a behaviour of ExtractIter: "
                              f"matched {vd['prefix']} of {len(t['events'])} events; first unmatched: {str(ev)[:300]}",
                              {"case": case, "trace": t})
                continue
            ctx.traces += 1
            if not vd["final"]:
                ctx.violation(f"[{v}] chain {describe(case)}: yielded frames / origins / leaf differ from the spec's", {"case": case, "trace": t})
            elif not vd["equiv"] and not for_c16:
                ctx.violation(f"[{v}] chain {describe(case)}: result differs from the documented rules (Ref)", {"case": case, "trace": t})
            if for_c16:
                strict = [i for i in vd["obad"] if i not in vd["oexc"]]
                if strict:
                    ctx.violation(f"[{v}] chain {describe(case)}: origin contract violated for frames {strict} (model verdict)", {"case": case, "trace": t})
                elif vd["oexc"]:
                    ctx.violation(f"[{v}] chain {describe(case)}: model verdict: frames {vd['oexc']} inherit a generator-type origin (the F5 shape)",
                                  {"case": case, "trace": t})
        ctx.sample({"chain": cases[owners[0][1]], "trace_events": all_traces[0]["events"][:4]})
    ctx.note("skipped", skipped)


def check(ctx):
    ctx.explanation = ("Chains.tla enumerates every typed chain of await / yield-from links (coroutines, generator-based "
                       "coroutines, generators, async generators driven through anext/asend/async for/athrow/aclose, "
                       "__await__ adapters) with its terminator, and checks on the model that the built-in unwrap rules "
                       "reproduce the throw path; each chain is built for real on every interpreter, extracted, and "
                       "compared with the spec and with the frames/lines a thrown exception really visits; the recorded "
                       "deque-level trace of each extraction is validated against ExtractIter")
    ctx.assume("every link wraps its suspension in try/except so that tracebacks through athrow()/aclose() are complete on 3.9-3.11")
    explore(ctx)
    backport_leg(ctx)


def backport_leg(ctx):
    """growth beyond the listed quantifier: the rows of glue_async_generator (Backport.tla), replayed on 3.12"""
    import json
    from ..common import BUILD, VERIF, available_interpreters, child_env, run
    from ..tlc import derive_cfg, run_tlc
    interps = available_interpreters(("3.12",))
    if "3.12" not in interps:
        ctx.assume("no interpreter with the async_generator package: the backport rows were model-checked but not replayed")
        return
    n = 3 if ctx.tier == "quick" else 4
    cfg = derive_cfg("Backport.cfg", f"Backport_{n}.cfg", {"MaxLinks": str(n)})
    res = ctx.tlc(run_tlc("Backport", cfg, workers=1, timeout=1800, name="backport_c03"),
                  f"chains up to {n} links over coroutines, native and backport async generators: glue rows == throw path")
    if not res.ok:
        ctx.violation(f"Backport model: {res.violated}: {res.trace_actions}", res.trace_text[-2000:])
        return
    cases = res.emitted
    if not cases:
        raise MachineryError("no backport chains emitted")
    d = BUILD / "chains"
    d.mkdir(parents=True, exist_ok=True)
    cpath, opath = d / "backport_cases.json", d / "backport_out.json"
    cpath.write_text(json.dumps({"cases": cases}))
    p, _ = run([interps["3.12"], "-W", "ignore::DeprecationWarning", str(VERIF / "harness/drivers/backport_driver.py"), str(cpath), str(opath)],
               timeout=1800, env=child_env("3.12"))
    if p.returncode != 0:
        raise MachineryError(f"backport driver failed: {p.stderr[-1500:]}")
    ctx.explanation += ("; Backport.tla does the same for the async_generator backport (the rows registered by glue_async_generator: "
                        "AsyncGenerator -> its coroutine, ANextIter -> coroutine wrapper, hidden step frames, hidden and pruned "
                        "yield_): every chain over {coroutine, native async generator, backport generator} with anext / asend / "
                        "async for / athrow / aclose / yield_from_ links is built and extracted on 3.12")
    n_ok = 0
    for o in json.loads(opath.read_text()):
        case = cases[o["idx"]]
        what = "%s / %s" % ([(l["k"], l["via"]) for l in case["chain"]], case["term"])
        if "skip" in o:
            raise MachineryError(f"[3.12] backport chain {what}: {o['skip']}")
        n_ok += 1
        for b in o["bad"]:
            ctx.violation(f"[3.12] backport chain {what}: {b}", {"case": case})
    ctx.replays += n_ok
    ctx.count("backport_chains", n_ok)
