"""C05 -- extract never raises: faults contained, reported in .error, outer frames kept.
Spec: ExtractIter with raising table entries (NeverEscapes, ElabFaultKept, FaultsAllRecorded, EquivRef with
raise == PRUNE, OutwardKept against fault-free sibling tables); binding: given-table replay (errors compared
tag by tag, in order) and k-th-call fault injection on a corpus of real scenarios whose recorded traces are
validated against ExtractIterTrace."""
import json
from concurrent.futures import ThreadPoolExecutor

from .. import m1
from ..common import BUILD, VERIF, MachineryError, available_interpreters, child_env, run
from ..tlc import require_coverage, run_tlc


def check(ctx):
    ctx.explanation = ("ExtractIter.tla with up to two raising hook-table entries is checked exhaustively (no exception "
                       "escapes the generator, every fault is recorded, a frame whose hook raised is kept un-hidden, the "
                       "result equals the documented rules); faulty table sets and their fault-free siblings are run "
                       "through spec and implementation (errors compared tag by tag, outward frames against the sibling); "
                       "on a corpus of real scenarios the k-th dynamic call of every hook kind is made to raise, for every "
                       "k, and the recorded deque-level traces of the faulty runs are validated against the spec")
    ctx.assume("injected faults are Exception subclasses (BaseExceptions are meant to propagate)")
    # (a) model
    r = ctx.tlc(run_tlc("MC_ExtractIter", "EI_faults.cfg", timeout=1200), "<= 2 raising entries, all tables")
    if not r.ok:
        ctx.violation(f"model: {r.violated}: {r.trace_actions}", r.trace_text[-3000:])
    require_coverage(r, ["PopFrame", "Unwrap", "Elab", "ReachLeaf"])
    # (a') given tables with fault-free siblings
    n = 1200 if ctx.tier == "quick" else 10000
    tables = m1.with_siblings(m1.curated() + m1.random_tables(n, ctx.seed + 5), ctx.seed)
    res = ctx.tlc(m1.spec_results(tables, "c05"), "given tables with fault-free siblings (OutwardKept)")
    if not res.ok:
        ctx.violation(f"model(given tables): {res.violated}: {res.trace_actions}", res.trace_text[-3000:])
    else:
        outs = m1.replay(tables, res, "c05")
        nfault = sum(1 for e in res.emitted if e["errors"])
        ctx.note("given_tables_with_faults", nfault)
        for v, o in outs.items():
            ctx.replays += o["n"]
            for mm in o["mismatches"]:
                case = o["cases"][mm["tid"]]
                ctx.violation(f"[{v}] tables {json.dumps({k: case[k] for k in ('U', 'E', 'C')})[:400]}: " + "; ".join(mm["bad"]),
                              {"case": case, "got": mm["got"], "interpreter": v})
    # (b) corpus, (c) arbitrary objects
    d = BUILD / "c05"
    d.mkdir(parents=True, exist_ok=True)
    interps = available_interpreters()
    maxk = "60" if ctx.tier == "quick" else "0"

    def one(item):
        v, py = item
        opath = d / f"corpus_{v}.json"
        p, _ = run([py, str(VERIF / "harness/drivers/corpus_driver.py"), str(opath), maxk], timeout=900, env=child_env(v))
        if p.returncode != 0:
            raise MachineryError(f"corpus driver failed under {v}: {p.stderr[-2000:]}")
        return v, json.loads(opath.read_text())

    with ThreadPoolExecutor(4) as ex:
        outs = dict(ex.map(one, interps.items()))
    traces, owners = [], []
    inj = 0
    for v, o in outs.items():
        for s in o["scenarios"]:
            inj += s["injections"]
            ctx.replays += s["injections"]
            for b in s["bad"]:
                ctx.violation(f"[{v}] scenario '{s['scenario']}': {b}", None)
            for b in s.get("f13", []):
                ctx.known("F13", f"[{v}] scenario '{s['scenario']}': {b}")
            for b in s.get("f14", []):
                ctx.known("F14", f"[{v}] scenario '{s['scenario']}': {b}")
            for t in s["traces"]:
                traces.append(t)
                owners.append((v, s["scenario"]))
        ctx.count("arbitrary_objects", o["objects"]["n"])
        for b in o["objects"]["bad"]:
            ctx.violation(f"[{v}] arbitrary object: {b}", None)
    ctx.note("fault_injections", inj)
    ctx.note("scenario_hook_calls", {s["scenario"]: s["counts"] for s in outs[sorted(outs)[0]]["scenarios"]})
    if traces:
        tres, verdicts = m1.validate_traces(traces, "c05")
        ctx.tlc(tres, "trace validation of the faulty runs")
        for (v, sc), t, vd in zip(owners, traces, verdicts):
            if not vd["accepted"]:
                ev = t["events"][vd["prefix"]] if vd["prefix"] < len(t["events"]) else None
                ctx.violation(f"[{v}] scenario '{sc}': a faulty run is not a behaviour of ExtractIter: matched {vd['prefix']} of "
                              f"{len(t['events'])} events; first unmatched {str(ev)[:300]}", {"trace": t})
            else:
                ctx.traces += 1
                if not vd["final"]:
                    ctx.violation(f"[{v}] scenario '{sc}': yielded frames / leaf differ from the spec's", {"trace": t})
        ctx.sample({"faulty_trace_events": [e for e in traces[len(traces) // 2]["events"][:3]]})
