"""C07 -- thread stacks: exact when the thread is blocked, memory-safe when it is racing.
Spec: FrameSnapshot.tla (snapshot protocol vs. a racing target), ThreadUnwrap.tla (alive / ident protocol)."""
import json
import subprocess
from concurrent.futures import ThreadPoolExecutor

from ..common import BUILD, VERIF, MachineryError, available_interpreters, child_env, run
from ..tlc import derive_cfg, require_coverage, run_tlc

DRV = str(VERIF / "harness/drivers/thread_driver.py")


def drive(mode, inp, tag, versions, timeout=1200, ctx=None):
    d = BUILD / "c07"
    d.mkdir(parents=True, exist_ok=True)
    ipath = d / f"{tag}_in.json"
    ipath.write_text(json.dumps(inp))
    interps = available_interpreters(versions or ("3.12", "3.11", "3.10", "3.9"))

    def one(item):
        v, py = item
        opath = d / f"{tag}_out_{v}.json"
        p, _ = run([py, DRV, mode, str(ipath), str(opath)], timeout=timeout, env=child_env(v))
        if p.returncode < 0 and ctx is not None and v not in ("3.9", "3.10"):
            # the replayed schedules are those for which the model predicts no crash: a dead interpreter is a violation
            ctx.violation(f"[{v}] the interpreter died with signal {-p.returncode} while replaying the {mode} schedules "
                          f"(the model predicts no crash for any of them)", {"mode": mode, "stderr": p.stderr[-600:]})
            return v, None
        if p.returncode != 0:
            raise MachineryError(f"thread driver ({mode}) under {v}: exit status {p.returncode} (a negative status is a crash of the interpreter)\n{p.stderr[-1500:]}")
        return v, json.loads(opath.read_text())

    with ThreadPoolExecutor(4) as ex:
        return {v: o for v, o in ex.map(one, interps.items()) if o is not None}


def check(ctx):
    ctx.explanation = ("FrameSnapshot.tla models inspect_frame's protocol (f_lasti token, frame deref, header reads, per-slot "
                       "re-check + read, final re-check, retry, give up) statement group by statement group against a target that "
                       "advances between its GIL-release points, loops back to the same position with other objects, returns "
                       "(the interpreter frame moves) and whose thread exits (the old location is unmapped); TLC checks no crash, "
                       "no use-after-free, snapshot consistent with one instruction position, bounded attempts over every "
                       "interleaving; simulated interleavings are replayed on a real target thread and a real inspector thread "
                       "blocked at the guarded probes, comparing result, snapshot length/objects and attempt count; FREE-RUNNING "
                       "inspect_frame calls on a thread that never stops are recorded through the same probes (the sink also reads "
                       "the target's f_lasti at every probe) and each call is validated as a run of the inspector automaton by "
                       "FrameSnapshotTrace.tla (no slot read and no snapshot returned after a re-check that saw another position; "
                       "trimming depth = the exception table's handler depth of this attempt; bounded attempts); "
                       "ThreadUnwrap.tla does the same for unwrap_thread's alive/ident protocol including ident reuse by a later "
                       "thread (all behaviours replayed); blocked threads of depth 1..5 with 0..3 managers, unstarted and "
                       "finished threads are compared exactly; a free-running stress with a 1 microsecond switch interval runs in "
                       "a subprocess whose exit status is checked")
    ctx.assume("memory safety on the model rests on the code's stated GIL assumption (no hand-over between the f_lasti re-check and "
               "the slot read: CheckReadAtomic); the config without it shows the use-after-free and is reported as an assumption")
    ctx.assume("'never crashes' is an empirical statement over the replayed schedules and the stress run; the 3.9/3.10 "
               "implementation has no token protocol and is covered by the blocked-thread and stress parts only")
    # ---- model
    r = ctx.tlc(run_tlc("FrameSnapshot", "FrameSnapshot.cfg", timeout=900), "snapshot protocol, every interleaving (3 attempts, 2 iterations)")
    if not r.ok:
        ctx.violation(f"model: {r.violated}: {r.trace_actions}", r.trace_text[-2500:])
    require_coverage(r, ["T12", "T23", "T31", "TFinish", "TExit", "IStart", "IDeref", "IHeader", "ICheck"])
    na = ctx.tlc(run_tlc("FrameSnapshot", derive_cfg("FrameSnapshot.cfg", "FS_nonatomic.cfg", {"CheckReadAtomic": "FALSE"}), timeout=900),
                 "without the GIL assumption (expected: use-after-free)")
    ctx.note("without_gil_assumption", na.violated or "no violation")
    u = ctx.tlc(run_tlc("ThreadUnwrap", "ThreadUnwrap.cfg", workers=1, timeout=600), "unwrap_thread alive/ident protocol, every interleaving")
    if not u.ok:
        ctx.violation(f"model (ThreadUnwrap): {u.violated}: {u.trace_actions}", u.trace_text[-2000:])
    # ---- replay: snapshot protocol (3.11+)
    n = 250 if ctx.tier == "quick" else 4000
    x = ctx.tlc(run_tlc("FrameSnapshotExport", "FrameSnapshot_export.cfg", workers=1, timeout=900, simulate=f"num={n}", depth=70,
                        seed=ctx.seed + 7, name="fsx"), "simulated interleavings for replay")
    if not x.ok:
        ctx.violation(f"model (simulation): {x.violated}: {x.trace_actions}", x.trace_text[-2000:])
    seen, behs = set(), []
    for e in x.emitted:
        k = json.dumps(e["acts"])
        if k not in seen:
            seen.add(k)
            behs.append(e)
    outs = drive("snapshot", {"behaviours": behs}, "snapshot", ("3.12", "3.11"), ctx=ctx)
    for v, o in outs.items():
        ctx.replays += o["n"]
        for mm in o["mismatches"]:
            ctx.violation(f"[{v}] schedule {mm['acts']}: " + "; ".join(mm["bad"]), mm)
        if o["skipped_crash"]:
            ctx.violation(f"[{v}] the model predicts a crash for {o['skipped_crash']} schedules", None)
    # the schedule of (fixed) finding F10 must not kill the interpreter
    f10 = {"acts": ["T12", "IStart", "T23", "IDeref", "TFinish", "TExit", "IHeader", "IStart", "IDeref", "IHeader", "ICheck"],
           "result": "ok", "lb": 9, "snap": [], "attempt": 2, "crashed": False, "iter": 1}
    d = BUILD / "c07"
    (d / "f10_in.json").write_text(json.dumps({"behaviours": [f10]}))
    for v, py in available_interpreters(("3.12", "3.11")).items():
        p = subprocess.run([py, DRV, "snapshot", str(d / "f10_in.json"), str(d / f"f10_out_{v}.json")], env=child_env(v),
                           capture_output=True, text=True, timeout=300)
        if p.returncode < 0:
            ctx.violation(f"[{v}] thread exit between the frame deref and the header reads kills the interpreter (signal {-p.returncode})", {"acts": f10["acts"]})
        elif p.returncode != 0:
            raise MachineryError(p.stderr[-1000:])
        else:
            o = json.loads((d / f"f10_out_{v}.json").read_text())
            ctx.replays += o["n"]
            for mm in o["mismatches"]:
                ctx.violation(f"[{v}] F10 schedule: " + "; ".join(mm["bad"]), mm)
    # ---- replay: unwrap_thread, blocked threads, stress
    outs = drive("unwrap", {"behaviours": u.emitted}, "unwrap", None, ctx=ctx)
    for v, o in outs.items():
        ctx.replays += o["n"]
        ctx.count("ident_reuse_not_reproducible", o["skipped"])
        for mm in o["mismatches"]:
            ctx.violation(f"[{v}] unwrap_thread schedule {mm['acts']}: " + "; ".join(mm["bad"]), mm)
    outs = drive("blocked", {}, "blocked", None, ctx=ctx)
    for v, o in outs.items():
        ctx.replays += o["n"]
        for mm in o["mismatches"]:
            ctx.violation(f"[{v}] blocked thread depth={mm['depth']} managers={mm['managers']} {mm['mode']}: " + "; ".join(mm["bad"]), mm)
    d = BUILD / "c07"
    (d / "stress_in.json").write_text(json.dumps({"seconds": 4 if ctx.tier == "quick" else 60}))
    for v, py in available_interpreters().items():
        opath = d / f"stress_out_{v}.json"
        p = subprocess.run([py, DRV, "stress", str(d / "stress_in.json"), str(opath)], env=child_env(v), capture_output=True, text=True, timeout=600)
        if p.returncode < 0:
            what = f"[{v}] free-running stress (switch interval 1e-6): the interpreter died with signal {-p.returncode} while extract(thread) raced the running target"
            # independent signature of F15: the interpreter is older than 3.11 (the 3.9/3.10 implementation has no snapshot protocol)
            if v in ("3.9", "3.10"):
                ctx.known("F15", what)
            else:
                ctx.violation(what, None)
            continue
        if p.returncode != 0:
            raise MachineryError(f"stress driver under {v}: {p.stderr[-1000:]}")
        o = json.loads(opath.read_text())
        ctx.count("stress_extractions", o["extractions"])
        for b in o["bad"]:
            ctx.violation(f"[{v}] stress: {b}", None)
    # ---- pattern T: free-running inspect_frame calls validated against FrameSnapshotTrace
    (d / "trace_in.json").write_text(json.dumps({"seconds": 3 if ctx.tier == "quick" else 40,
                                                  "max_traces": 1500 if ctx.tier == "quick" else 20000}))
    all_traces, owners = [], []
    for v, py in available_interpreters().items():
        if v in ("3.9", "3.10"):
            continue
        opath = d / f"trace_out_{v}.json"
        p = subprocess.run([py, DRV, "trace", str(d / "trace_in.json"), str(opath)], env=child_env(v), capture_output=True, text=True, timeout=900)
        if p.returncode < 0:
            ctx.violation(f"[{v}] free-running inspect_frame loop: the interpreter died with signal {-p.returncode}", None)
            continue
        if p.returncode != 0:
            raise MachineryError(f"trace driver under {v}: {p.stderr[-1000:]}")
        o = json.loads(opath.read_text())
        for b in o["bad"]:
            raise MachineryError(f"[{v}] trace driver: {b}")
        ctx.count("free_running_inspections", o["calls"])
        ctx.count("free_running_inspections_with_retry", o["with_retry"])
        ctx.count("free_running_inspections_of_an_executing_frame", o["unknown_top"])
        ctx.count("free_running_rejected_by_assertion", o["raised"])
        ctx.count("free_running_gave_up", o["giveup"])
        for t in o["traces"]:
            all_traces.append(t)
            owners.append(v)
    if all_traces:
        # self-test of the binding: a recorded trace with ONE observation altered (a slot re-check that saw the target
        # elsewhere, yet the call went on reading) must be rejected
        import copy
        donor = next((t for t in all_traces if t["events"][-1]["result"] == "ok"
                      and any(e["e"] == "slot" for e in t["events"]) and not any(e["e"] == "retry" for e in t["events"])), None)
        corrupted = None
        if donor is not None:
            corrupted = copy.deepcopy(donor)
            ev = next(e for e in corrupted["events"] if e["e"] == "slot")
            ev["seen"] = ev["seen"] + 2
            all_traces.append(corrupted)
            owners.append("corrupted")
        tpath = d / "fs_traces.json"
        tpath.write_text(json.dumps(all_traces))
        tr = ctx.tlc(run_tlc("FrameSnapshotTrace", "FS_trace.cfg", workers=1, timeout=1800, coverage=False,
                             env={"FS_TRACES": str(tpath)}, name="fstrace"), "trace validation of free-running inspect_frame calls")
        if not tr.ok:
            raise MachineryError(f"trace validation run failed: {tr.violated} {tr.trace_text[-1500:]}")
        best = {}
        for e in tr.emitted:
            k = e["tid"] - 1
            if k not in best or e["l"] > best[k]["l"] or (e["l"] == best[k]["l"] and e["verdict"] != "ok"):
                best[k] = e
        for k, t in enumerate(all_traces):
            e = best.get(k)
            if e is None:
                raise MachineryError(f"no verdict for trace {k}")
            if owners[k] == "corrupted":
                if e["consumed"] and e["verdict"] == "ok":
                    raise MachineryError("FrameSnapshotTrace accepted a corrupted trace: the trace specification binds nothing")
                ctx.note("corrupted_trace_rejected_at_event", e["l"] - 1)
                continue
            if e["verdict"] != "ok":
                ctx.violation(f"[{owners[k]}] free-running inspect_frame call: {e['verdict']} (event {e['l'] - 1} of {len(t['events'])})",
                              {"trace": t, "interpreter": owners[k]})
            elif not e["consumed"]:
                ev = t["events"][e["l"] - 1]
                ctx.violation(f"[{owners[k]}] free-running inspect_frame call is not a run of the snapshot protocol: matched "
                              f"{e['l'] - 1} of {len(t['events'])} events, inspector at '{e['ipc']}', next event {ev['e']} "
                              f"(saw lasti {ev['seen']})", {"trace": t, "interpreter": owners[k]})
            else:
                ctx.traces += 1
        ctx.sample({"free_running_trace": all_traces[0]})
    ctx.note("interpreters", sorted(available_interpreters()))
    ctx.sample({"schedule": behs[0]["acts"], "spec_result": {k: behs[0][k] for k in ("result", "lb", "snap", "attempt")}})
