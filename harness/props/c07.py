"""C07 -- thread stacks: exact when the thread is blocked, memory-safe when it is racing.
Spec: FrameSnapshot.tla (snapshot protocol vs. a racing target), ThreadUnwrap.tla (alive / ident protocol)."""
import json
import subprocess
from concurrent.futures import ThreadPoolExecutor

from ..common import BUILD, VERIF, MachineryError, available_interpreters, child_env, run
from ..tlc import derive_cfg, require_coverage, run_tlc

DRV = str(VERIF / "harness/drivers/thread_driver.py")


def drive(mode, inp, tag, versions, timeout=1200):
    d = BUILD / "c07"
    d.mkdir(parents=True, exist_ok=True)
    ipath = d / f"{tag}_in.json"
    ipath.write_text(json.dumps(inp))
    interps = available_interpreters(versions or ("3.12", "3.11", "3.10", "3.9"))

    def one(item):
        v, py = item
        opath = d / f"{tag}_out_{v}.json"
        p, _ = run([py, DRV, mode, str(ipath), str(opath)], timeout=timeout, env=child_env(v))
        if p.returncode != 0:
            raise MachineryError(f"thread driver ({mode}) under {v}: exit status {p.returncode} (a negative status is a crash of the interpreter)\n{p.stderr[-1500:]}")
        return v, json.loads(opath.read_text())

    with ThreadPoolExecutor(4) as ex:
        return dict(ex.map(one, interps.items()))


def check(ctx):
    ctx.explanation = ("FrameSnapshot.tla models inspect_frame's protocol (f_lasti token, frame deref, header reads, per-slot "
                       "re-check + read, final re-check, retry, give up) statement group by statement group against a target that "
                       "advances between its GIL-release points, loops back to the same position with other objects, returns "
                       "(the interpreter frame moves) and whose thread exits (the old location is unmapped); TLC checks no crash, "
                       "no use-after-free, snapshot consistent with one instruction position, bounded attempts over every "
                       "interleaving; simulated interleavings are replayed on a real target thread and a real inspector thread "
                       "blocked at the guarded probes, comparing result, snapshot length/objects and attempt count; "
                       "ThreadUnwrap.tla does the same for unwrap_thread's alive/ident protocol including ident reuse by a later "
                       "thread (all behaviours replayed); blocked threads of depth 1..5 with 0..3 managers, unstarted and "
                       "finished threads are compared exactly; a free-running stress with a 1 microsecond switch interval runs in "
                       "a subprocess whose exit status is checked")
    ctx.assume("memory safety on the model rests on the code's stated GIL assumption (no hand-over between the f_lasti re-check and "
               "the slot read: CheckReadAtomic); the config without it shows the use-after-free and is reported as an assumption")
    ctx.assume("'never crashes' is an empirical statement over the replayed schedules and the stress run; the 3.9/3.10 "
               "implementation has no token protocol and is covered by the blocked-thread and stress parts only")
    # ---- model
    r = ctx.tlc(run_tlc("FrameSnapshot", "FrameSnapshot.cfg", timeout=900), "snapshot protocol, every interleaving (3 attempts, 2 iterations)")
    if not r.ok:
        ctx.violation(f"model: {r.violated}: {r.trace_actions}", r.trace_text[-2500:])
    require_coverage(r, ["T12", "T23", "T31", "TFinish", "TExit", "IStart", "IDeref", "IHeader", "ICheck"])
    na = ctx.tlc(run_tlc("FrameSnapshot", derive_cfg("FrameSnapshot.cfg", "FS_nonatomic.cfg", {"CheckReadAtomic": "FALSE"}), timeout=900),
                 "without the GIL assumption (expected: use-after-free)")
    ctx.note("without_gil_assumption", na.violated or "no violation")
    u = ctx.tlc(run_tlc("ThreadUnwrap", "ThreadUnwrap.cfg", workers=1, timeout=600), "unwrap_thread alive/ident protocol, every interleaving")
    if not u.ok:
        ctx.violation(f"model (ThreadUnwrap): {u.violated}: {u.trace_actions}", u.trace_text[-2000:])
    # ---- replay: snapshot protocol (3.11+)
    n = 250 if ctx.tier == "quick" else 4000
    x = ctx.tlc(run_tlc("FrameSnapshotExport", "FrameSnapshot_export.cfg", workers=1, timeout=900, simulate=f"num={n}", depth=70,
                        seed=ctx.seed + 7, name="fsx"), "simulated interleavings for replay")
    if not x.ok:
        ctx.violation(f"model (simulation): {x.violated}: {x.trace_actions}", x.trace_text[-2000:])
    seen, behs = set(), []
    for e in x.emitted:
        k = json.dumps(e["acts"])
        if k not in seen:
            seen.add(k)
            behs.append(e)
    outs = drive("snapshot", {"behaviours": behs}, "snapshot", ("3.12", "3.11"))
    for v, o in outs.items():
        ctx.replays += o["n"]
        for mm in o["mismatches"]:
            ctx.violation(f"[{v}] schedule {mm['acts']}: " + "; ".join(mm["bad"]), mm)
        if o["skipped_crash"]:
            ctx.violation(f"[{v}] the model predicts a crash for {o['skipped_crash']} schedules", None)
    # the schedule of (fixed) finding F10 must not kill the interpreter
    f10 = {"acts": ["T12", "IStart", "T23", "IDeref", "TFinish", "TExit", "IHeader", "IStart", "IDeref", "IHeader", "ICheck"],
           "result": "ok", "lb": 9, "snap": [], "attempt": 2, "crashed": False, "iter": 1}
    d = BUILD / "c07"
    (d / "f10_in.json").write_text(json.dumps({"behaviours": [f10]}))
    for v, py in available_interpreters(("3.12", "3.11")).items():
        p = subprocess.run([py, DRV, "snapshot", str(d / "f10_in.json"), str(d / f"f10_out_{v}.json")], env=child_env(v),
                           capture_output=True, text=True, timeout=300)
        if p.returncode < 0:
            ctx.violation(f"[{v}] thread exit between the frame deref and the header reads kills the interpreter (signal {-p.returncode})", {"acts": f10["acts"]})
        elif p.returncode != 0:
            raise MachineryError(p.stderr[-1000:])
        else:
            o = json.loads((d / f"f10_out_{v}.json").read_text())
            ctx.replays += o["n"]
            for mm in o["mismatches"]:
                ctx.violation(f"[{v}] F10 schedule: " + "; ".join(mm["bad"]), mm)
    # ---- replay: unwrap_thread, blocked threads, stress
    outs = drive("unwrap", {"behaviours": u.emitted}, "unwrap", None)
    for v, o in outs.items():
        ctx.replays += o["n"]
        ctx.count("ident_reuse_not_reproducible", o["skipped"])
        for mm in o["mismatches"]:
            ctx.violation(f"[{v}] unwrap_thread schedule {mm['acts']}: " + "; ".join(mm["bad"]), mm)
    outs = drive("blocked", {}, "blocked", None)
    for v, o in outs.items():
        ctx.replays += o["n"]
        for mm in o["mismatches"]:
            ctx.violation(f"[{v}] blocked thread depth={mm['depth']} managers={mm['managers']} {mm['mode']}: " + "; ".join(mm["bad"]), mm)
    d = BUILD / "c07"
    (d / "stress_in.json").write_text(json.dumps({"seconds": 4 if ctx.tier == "quick" else 60}))
    for v, py in available_interpreters().items():
        opath = d / f"stress_out_{v}.json"
        p = subprocess.run([py, DRV, "stress", str(d / "stress_in.json"), str(opath)], env=child_env(v), capture_output=True, text=True, timeout=600)
        if p.returncode < 0:
            what = f"[{v}] free-running stress (switch interval 1e-6): the interpreter died with signal {-p.returncode} while extract(thread) raced the running target"
            # independent signature of F15: the interpreter is older than 3.11 (the 3.9/3.10 implementation has no snapshot protocol)
            if v in ("3.9", "3.10"):
                ctx.known("F15", what)
            else:
                ctx.violation(what, None)
            continue
        if p.returncode != 0:
            raise MachineryError(f"stress driver under {v}: {p.stderr[-1000:]}")
        o = json.loads(opath.read_text())
        ctx.count("stress_extractions", o["extractions"])
        for b in o["bad"]:
            ctx.violation(f"[{v}] stress: {b}", None)
    ctx.note("interpreters", sorted(available_interpreters()))
    ctx.sample({"schedule": behs[0]["acts"], "spec_result": {k: behs[0][k] for k in ("result", "lb", "snap", "attempt")}})
