"""C17 -- library glue is installed exactly once, in time, module-provided beats built-in.
Spec: GlueInstall.tla at probe-point granularity; exhaustive TLC over interleavings and sys.modules histories;
TLC behaviours replayed on real threads through the guarded yield points H2."""
from .. import m4
from ..common import MachineryError
from ..tlc import require_coverage

ACTIONS = ["Import", "Remove", "Start", "LeaveCheck", "LeaveFast", "LeaveWait", "LeaveSnap", "LeaveNext", "LeavePopb",
           "LeavePopm", "LeaveCalled", "LeaveCache", "LeaveRelease"]


def check(ctx):
    ctx.explanation = ("GlueInstall.tla models add_glue_as_needed between consecutive guarded probe points (length fast path, "
                       "lock, snapshot, pop built-in, pop module function, call, cache, release) for 2 threads x 2 extractions "
                       "with the environment inserting/removing/re-inserting modules at any point; TLC checks at-most-once, "
                       "module-beats-builtin, in-time (with the length-cache cause F4 named), lock discipline exhaustively per "
                       "attribute vector; simulated behaviours are replayed on real threads that block at every probe until the "
                       "controller schedules them, comparing sys.modules, pending table, module attributes, cache, lock and the "
                       "call log after EVERY action, and evaluating the property itself on the real state")
    ctx.assume("module objects are re-inserted, not re-created; glue functions do not call extract (observation O3)")
    vectors = (["both", "raise", "removes", "imports", "alias", "mix3"] if ctx.tier == "thorough"
               else ["both", "raise", "removes", "imports", "alias"])
    total_strict = 0
    for vec in vectors:
        over = {}
        if ctx.tier == "thorough":
            over = dict(MaxEnv=4)
        r = ctx.tlc(m4.model(ctx, vec, **over), f"exhaustive interleavings, vector {vec}")
        if not r.ok:
            ctx.violation(f"model[{vec}]: {r.violated}: {r.trace_actions}", r.trace_text[-3000:])
            continue
        if vec == "both":
            require_coverage(r, ACTIONS)
        n = 150 if ctx.tier == "quick" else 1500
        x = ctx.tlc(m4.export(ctx, vec, n, ctx.seed + 17), f"simulated behaviours for replay, vector {vec}")
        if not x.ok:
            ctx.violation(f"model[{vec}] (simulation): {x.violated}: {x.trace_actions}", x.trace_text[-3000:])
            continue
        if not x.emitted:
            raise MachineryError(f"no behaviours exported for vector {vec}")
        outs = m4.replay(vec, x.emitted, ctx.pid.lower())
        ctx.note("interpreters", sorted(outs))
        for v, o in outs.items():
            ctx.replays += o["n"]
            ctx.count("replayed_actions", o["steps"])
            ctx.count("extraction_returns_checked", o["returns_checked"])
            for mm in o["mismatches"]:
                ctx.violation(f"[{v}] vector {vec}: after {mm['action']} (step {mm['step']}): " + "; ".join(mm["diff"]),
                              {"acts": mm["acts"], "vector": vec})
            for st in o["strict"]:
                total_strict += 1
                if st["what"].startswith("InTime") and st.get("f4"):
                    ctx.known("F4", f"[{v}] vector {vec}: {st['what']}; schedule {st['acts']}")
                else:
                    ctx.violation(f"[{v}] vector {vec}: {st['what']}", {"acts": st["acts"], "vector": vec})
        ctx.sample({"vector": vec, "schedule": x.emitted[0]["acts"][:14], "state_after_first_action": x.emitted[0]["projs"][0]})

    # F4 (length cache): the documented history, replayed on the real code (no model projection needed: the
    # driver evaluates the property and the independent signature itself)
    t = "t1"
    scan = [["LeaveCheck", t], ["LeaveWait", t], ["LeaveSnap", t], ["LeaveNext", t], ["LeavePopb", t], ["LeavePopm", t],
            ["LeaveCalled", t], ["LeaveCache", t], ["LeaveRelease", t]]
    f4 = [["Import", "a"], ["Start", t]] + scan + [["Remove", "a"], ["Import", "b"], ["Start", t], ["LeaveCheck", t], ["LeaveFast", t]]
    outs = m4.replay("both", [{"acts": f4}], ctx.pid.lower() + "_f4")
    for v, o in outs.items():
        ctx.replays += o["n"]
        for mm in o["mismatches"]:
            ctx.violation(f"[{v}] F4 history: after {mm['action']}: " + "; ".join(mm["diff"]), {"acts": mm["acts"]})
        for st in o["strict"]:
            if st["what"].startswith("InTime") and st.get("f4"):
                ctx.known("F4", f"[{v}] {st['what']}; history {st['acts']}")
            else:
                ctx.violation(f"[{v}] F4 history: {st['what']}", {"acts": st["acts"]})

    # ---- pattern T: free-running threads, probes only log; TLC infers where the unlogged steps happened
    import copy
    import json
    from ..common import BUILD, VERIF, VENV_PY, child_env, run
    from ..tlc import run_tlc
    ctx.explanation += ("; pattern T: 3 free-running threads (switch interval 1e-5) extract while an environment thread edits "
                        "sys.modules, the probes only log arrivals, and GlueInstallTrace lets TLC place the unlogged Leave* "
                        "actions (one silent step per thread per arrival, environment edits between begin/end) so that the "
                        "whole trace and the real call log are explained; a deliberately corrupted trace must be rejected")
    d = BUILD / "m4"
    d.mkdir(parents=True, exist_ok=True)
    rounds = 12 if ctx.tier == "quick" else 120
    for vec in (["both"] if ctx.tier == "quick" else ["both", "raise"]):
        v = m4.VECTORS[vec]
        inp = d / f"free_{vec}.json"
        inp.write_text(json.dumps({"config": {"mods": v["mods"], "hasB": v["hasB"], "flavour": v["flavour"], "imp": v["imp"]},
                                   "threads": ["t1", "t2", "t3"], "rounds": rounds, "seed": ctx.seed + 3}))
        outp = d / f"free_{vec}_out.json"
        p, _ = run([VENV_PY, str(VERIF / "harness/drivers/glue_driver.py"), str(inp), str(outp), "free"], timeout=900, env=child_env("3.12"))
        if p.returncode != 0:
            raise MachineryError(f"free-running glue driver failed: {p.stderr[-1500:]}")
        traces = json.loads(outp.read_text())["traces"]
        bad = copy.deepcopy(traces[-1])
        ks = [i for i, e in enumerate(bad["events"]) if e["p"] == "popm"]
        corrupted = False
        if ks:
            bad["events"][ks[0]]["p"] = "called"
            traces.append(bad)
            corrupted = True
        tpath = d / f"free_{vec}_traces.json"
        tpath.write_text(json.dumps(traces))
        cfg = m4.cfg_for("GI_trace.cfg", vec, f"GI_trace_{vec}.cfg")
        r = ctx.tlc(run_tlc("GlueInstallTrace", cfg, workers=1, timeout=1800, coverage=False, env={"GI_TRACES": str(tpath)}, name=f"gitrace_{vec}"),
                    f"trace validation of {len(traces)} free-running executions, vector {vec}")
        if not r.ok:
            raise MachineryError(f"trace validation run failed: {r.violated}")
        best = {}
        for e in r.emitted:
            b = best.setdefault(e["tid"], {"l": 0, "final": False, "once": True, "beats": True, "lockok": True})
            b["l"] = max(b["l"], e["l"])
            if e.get("final"):
                b["final"] = True
                for k in ("once", "beats", "lockok"):
                    b[k] = b[k] and e[k]
        for i, t in enumerate(traces, start=1):
            b = best.get(i, {"l": 0, "final": False})
            ok = b["l"] > len(t["events"]) and b["final"]
            if corrupted and i == len(traces):
                if ok:
                    raise MachineryError("binding demonstration failed: the corrupted trace was accepted")
                ctx.note("corrupted_trace_rejected_at_event", b["l"])
                continue
            if not ok:
                ev = t["events"][b["l"] - 1] if 0 < b["l"] <= len(t["events"]) else None
                ctx.violation(f"vector {vec}: a free-running execution is not a behaviour of GlueInstall: matched {b['l'] - 1} of "
                              f"{len(t['events'])} events, first unmatched {ev}; real call log {t['calls']}", {"trace": t})
                continue
            ctx.traces += 1
            if not (b["once"] and b["beats"] and b["lockok"]):
                ctx.violation(f"vector {vec}: free-running execution violates at-most-once / module-beats-builtin / lock discipline: {t['calls']}", {"trace": t})
