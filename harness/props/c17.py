"""C17 -- library glue is installed exactly once, in time, module-provided beats built-in.
Spec: GlueInstall.tla at probe-point granularity; exhaustive TLC over interleavings and sys.modules histories;
TLC behaviours replayed on real threads through the guarded yield points H2."""
from .. import m4
from ..common import MachineryError
from ..tlc import require_coverage

ACTIONS = ["Import", "Remove", "Start", "LeaveCheck", "LeaveFast", "LeaveWait", "LeaveSnap", "LeaveNext", "LeavePopb",
           "LeavePopm", "LeaveCalled", "LeaveCache", "LeaveRelease"]


def check(ctx):
    ctx.explanation = ("GlueInstall.tla models add_glue_as_needed between consecutive guarded probe points (length fast path, "
                       "lock, snapshot, pop built-in, pop module function, call, cache, release) for 2 threads x 2 extractions "
                       "with the environment inserting/removing/re-inserting modules at any point; TLC checks at-most-once, "
                       "module-beats-builtin, in-time (with the length-cache cause F4 named), lock discipline exhaustively per "
                       "attribute vector; simulated behaviours are replayed on real threads that block at every probe until the "
                       "controller schedules them, comparing sys.modules, pending table, module attributes, cache, lock and the "
                       "call log after EVERY action, and evaluating the property itself on the real state")
    ctx.assume("module objects are re-inserted, not re-created; glue functions do not call extract (observation O3)")
    vectors = ["both", "raise", "removes", "imports", "mix3"] if ctx.tier == "thorough" else ["both", "raise", "removes", "imports"]
    total_strict = 0
    for vec in vectors:
        over = {}
        if ctx.tier == "thorough":
            over = dict(MaxEnv=4)
        r = ctx.tlc(m4.model(ctx, vec, **over), f"exhaustive interleavings, vector {vec}")
        if not r.ok:
            ctx.violation(f"model[{vec}]: {r.violated}: {r.trace_actions}", r.trace_text[-3000:])
            continue
        if vec == "both":
            require_coverage(r, ACTIONS)
        n = 150 if ctx.tier == "quick" else 1500
        x = ctx.tlc(m4.export(ctx, vec, n, ctx.seed + 17), f"simulated behaviours for replay, vector {vec}")
        if not x.ok:
            ctx.violation(f"model[{vec}] (simulation): {x.violated}: {x.trace_actions}", x.trace_text[-3000:])
            continue
        if not x.emitted:
            raise MachineryError(f"no behaviours exported for vector {vec}")
        outs = m4.replay(vec, x.emitted, ctx.pid.lower())
        ctx.note("interpreters", sorted(outs))
        for v, o in outs.items():
            ctx.replays += o["n"]
            ctx.count("replayed_actions", o["steps"])
            ctx.count("extraction_returns_checked", o["returns_checked"])
            for mm in o["mismatches"]:
                ctx.violation(f"[{v}] vector {vec}: after {mm['action']} (step {mm['step']}): " + "; ".join(mm["diff"]),
                              {"acts": mm["acts"], "vector": vec})
            for st in o["strict"]:
                total_strict += 1
                if st["what"].startswith("InTime") and st.get("f4"):
                    ctx.known("F4", f"[{v}] vector {vec}: {st['what']}; schedule {st['acts']}")
                else:
                    ctx.violation(f"[{v}] vector {vec}: {st['what']}", {"acts": st["acts"], "vector": vec})
        ctx.sample({"vector": vec, "schedule": x.emitted[0]["acts"][:14], "state_after_first_action": x.emitted[0]["projs"][0]})

    # F4 (length cache): the documented history, replayed on the real code (no model projection needed: the
    # driver evaluates the property and the independent signature itself)
    t = "t1"
    scan = [["LeaveCheck", t], ["LeaveWait", t], ["LeaveSnap", t], ["LeaveNext", t], ["LeavePopb", t], ["LeavePopm", t],
            ["LeaveCalled", t], ["LeaveCache", t], ["LeaveRelease", t]]
    f4 = [["Import", "a"], ["Start", t]] + scan + [["Remove", "a"], ["Import", "b"], ["Start", t], ["LeaveCheck", t], ["LeaveFast", t]]
    outs = m4.replay("both", [{"acts": f4}], ctx.pid.lower() + "_f4")
    for v, o in outs.items():
        ctx.replays += o["n"]
        for mm in o["mismatches"]:
            ctx.violation(f"[{v}] F4 history: after {mm['action']}: " + "; ".join(mm["diff"]), {"acts": mm["acts"]})
        for st in o["strict"]:
            if st["what"].startswith("InTime") and st.get("f4"):
                ctx.known("F4", f"[{v}] {st['what']}; history {st['acts']}")
            else:
                ctx.violation(f"[{v}] F4 history: {st['what']}", {"acts": st["acts"]})
