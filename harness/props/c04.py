"""C04 -- running-stack extraction and StackSlice slicing equal slices of the true stack.
Spec: Slice.tla (RefSlice vs the transcribed AlgSlice); binding: every query replayed on real stacks."""
import itertools
import json
from concurrent.futures import ThreadPoolExecutor

from ..common import BUILD, VERIF, MachineryError, available_interpreters, child_env, run
from ..tlc import run_tlc


def plans(tier):
    kinds1 = [["plain"], ["plain", "plain"], ["gen"], ["coro"], ["plain", "gen", "plain"], ["coro", "plain"], ["gen", "coro"]]
    out = [[k] for k in kinds1]
    segs = [["plain"], ["plain", "plain"], ["gen"], ["coro", "plain"]]
    for a, b in itertools.product(segs, repeat=2):
        out.append([a, b])
    for a, b, c in itertools.product(segs[:3], repeat=3):
        out.append([a, b, c])
    # a DEAD greenlet in the middle of the parent chain (it contributes no frames; the walk must go on to its parent)
    for a, b in itertools.product(segs[:3], repeat=2):
        out.append([a, ["@dead"] + b])
        out.append([a, ["@dead"] + b, ["plain"]])
        out.append([a, b, ["@dead", "plain"]])
    if tier == "thorough":
        segs2 = segs + [["plain", "gen", "coro"], ["plain", "plain", "plain"]]
        for a, b in itertools.product(segs2, repeat=2):
            out.append([a, b])
        for a, b, c in itertools.product(segs2[2:], repeat=3):
            out.append([a, b, c])
    seen, res = set(), []
    for p in out:
        k = json.dumps(p)
        if k not in seen:
            seen.add(k)
            res.append(p)
    return res


def check(ctx):
    ctx.explanation = ("(greenback: Portal.tla's behaviours are replayed in a real Trio task and after every action extract_since(None), called by the innermost frame, is compared by identity with the thread's frame chain continued through the greenlet parents) Slice.tla states the specification RefSlice (contiguous sub-sequence; which end a limit keeps) and "
                       "transcribes unwrap_stackslice operator by operator (AlgSlice); TLC checks AlgSlice == RefSlice for every "
                       "stack shape the harness can really build (1..3 nested greenlets, plain / running-generator / "
                       "running-coroutine call levels, thread bootstrap frames included) and every (outer, inner, limit); every "
                       "query is then executed at the innermost frame of the real stack and frame identities compared, together "
                       "with the extract_since / extract_until wrappers and the absence of stackscope's own frames")
    ctx.assume("outer <= inner when both are given; frame-valued extract_until limits only within one greenlet segment; greenlet "
               "only under 3.12 (other interpreters: single-segment shapes)")
    ps = plans(ctx.tier)
    d = BUILD / "c04"
    d.mkdir(parents=True, exist_ok=True)
    ppath = d / "plans.json"
    ppath.write_text(json.dumps({"plans": ps}))
    interps = available_interpreters()
    drv = str(VERIF / "harness/drivers/slice_driver.py")
    shapes = {}
    for v, py in interps.items():
        spath = d / f"shapes_{v}.json"
        p, _ = run([py, drv, "shapes", str(ppath), str(spath)], timeout=600, env=child_env(v))
        if p.returncode != 0:
            raise MachineryError(f"slice driver (shapes) failed under {v}: {p.stderr[-2000:]}")
        shapes[v] = json.loads(spath.read_text())
        for s in shapes[v]:
            if isinstance(s, dict):
                raise MachineryError(f"[{v}] could not build a stack: {s['error']}")
    all_shapes = sorted({tuple(s) for v in shapes for s in shapes[v] if s})
    shpath = d / "shapes_all.json"
    shpath.write_text(json.dumps([list(s) for s in all_shapes]))
    res = ctx.tlc(run_tlc("Slice", "Slice.cfg", workers=1, timeout=1800, env={"SL_SHAPES": str(shpath)}, name="slice"),
                  "AlgSlice == RefSlice for all shapes x (outer, inner, limit)")
    if not res.ok:
        ctx.violation(f"model: {res.violated}: the transcribed algorithm differs from the specification", res.trace_text[-2500:])
        return
    by_shape = {}
    seen = set()
    for e in res.emitted:
        k = (tuple(e["segs"]), e["outer"], e["inner"], e["limit"])
        if k in seen:
            continue
        seen.add(k)
        by_shape.setdefault(tuple(e["segs"]), []).append({"outer": e["outer"], "inner": e["inner"], "limit": e["limit"], "expect": e["expect"]})
    ctx.note("shapes", [list(s) for s in all_shapes])
    ctx.note("queries_from_tlc", len(seen))

    def one(item):
        v, py = item
        items = []
        for plan, shape in zip(ps, shapes[v]):
            if shape:
                items.append({"plan": plan, "shape": shape, "cases": by_shape[tuple(shape)]})
        cpath = d / f"cases_{v}.json"
        cpath.write_text(json.dumps({"items": items}))
        opath = d / f"out_{v}.json"
        p, _ = run([py, drv, "queries", str(cpath), str(opath)], timeout=1800, env=child_env(v))
        if p.returncode != 0:
            raise MachineryError(f"slice driver (queries) failed under {v}: {p.stderr[-2000:]}")
        return v, json.loads(opath.read_text())

    with ThreadPoolExecutor(4) as ex:
        outs = dict(ex.map(one, interps.items()))
    ctx.note("interpreters", sorted(outs))
    for v, o in outs.items():
        ctx.replays += o["n"]
        ctx.count("wrapper_variants_checked", o["api_variants"])
        ctx.count("real_stacks_built", o["stacks"])
        for mm in o["mismatches"]:
            if str(mm["bad"]).startswith("harness"):
                raise MachineryError(f"[{v}] {mm}")
            ctx.violation(f"[{v}] stack {mm['shape']} (plan {mm['plan']}) query outer/inner/limit={mm['query']}: {mm['bad']}", mm)
    s0 = all_shapes[len(all_shapes) // 2]
    ctx.sample({"shape": list(s0), "queries": by_shape[s0][:5]})
    greenback_part(ctx, d)
    # import order: first extraction before greenlet is imported
    from ..common import VENV_PY
    lp = d / "lazygreenlet_out.json"
    p, _ = run([VENV_PY, str(VERIF / "harness/drivers/slice_lazygreenlet.py"), str(lp)], timeout=300, env=child_env("3.12"))
    if p.returncode != 0:
        raise MachineryError(f"lazy-greenlet scenario failed: {p.stderr[-1500:]}")
    lo = json.loads(lp.read_text())
    if not lo["ran"]:
        raise MachineryError("lazy-greenlet scenario did not run (no greenlet?)")
    ctx.replays += 1
    for b in lo["bad"]:
        ctx.violation("[3.12] " + b, None)


def greenback_part(ctx, d):
    """extract_since(None) from inside a task whose frames greenback has spread over greenlets (Portal.tla's
    behaviours): the result must be the thread's own frame chain continued through the greenlet parents"""
    from ..common import VENV_PY
    from ..tlc import derive_cfg
    x = ctx.tlc(run_tlc("Portal", derive_cfg("Portal_export.cfg", "Portal_c04.cfg", {"MaxSteps": "3" if ctx.tier == "quick" else "4", "WithCms": "FALSE"}),
                        timeout=900, name="portal_c04", coverage=False), "greenback portal behaviours (for extract_since inside a task)")
    if not x.ok or not x.emitted:
        raise MachineryError("no portal behaviours exported")
    bp, op = d / "portal_b.json", d / "portal_o.json"
    bp.write_text(json.dumps({"behaviours": x.emitted}))
    p, _ = run([VENV_PY, str(VERIF / "harness/drivers/portal_driver.py"), str(bp), str(op)], timeout=1800, env=child_env("3.12"))
    if p.returncode != 0:
        raise MachineryError(f"portal driver failed: {p.stderr[-2000:]}")
    o = json.loads(op.read_text())
    ctx.replays += o["since_n"]
    ctx.note("extract_since_inside_greenback_tasks", o["since_n"])
    if not o["since_n"]:
        raise MachineryError("the portal driver made no extract_since observation")
    for mm in o["since_mismatches"]:
        ctx.violation("[3.12] " + mm["what"] + " (after %s)" % [a.get("edge") or a["a"] for a in mm["acts"]], mm)
