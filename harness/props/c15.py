"""C15 -- greenlet stacks: suspended, current, dead, foreign-thread, and greenback bridges.
Spec: Greenlets.tla (forest evolutions; Expected = the target's own segment; Bridge(d))."""
import json

from ..common import BUILD, VERIF, VENV_PY, MachineryError, child_env, run
from ..tlc import require_coverage, run_tlc


def check(ctx):
    ctx.explanation = ("Greenlets.tla models a forest of three greenlets (every acyclic parent assignment) driven from the main "
                       "greenlet: start, nested call, return, finish, and extract(target) by main, by the target itself, by a "
                       "child, by an unrelated greenlet; the expectation is always the target's own segment (entry .. switch "
                       "point), empty for unstarted / dead; simulated behaviours are replayed with command-interpreting greenlet "
                       "bodies; plus a greenlet running / suspended in another thread, and greenback await_ bridges of depth "
                       "0..3 under Trio observed from outside and inside the task (expected alternation Bridge(d), internals hidden)")
    ctx.assume("3.12 only (greenlet / greenback / trio exist only in the project venv); PyPy paths not reachable here")
    r = ctx.tlc(run_tlc("Greenlets", "Greenlets.cfg", timeout=900), "forest evolutions, exhaustive under VIEW")
    if not r.ok:
        ctx.violation(f"model: {r.violated}", r.trace_text[-2000:])
    require_coverage(r, ["Start", "Call", "Return", "Finish", "Observe"])
    n = 400 if ctx.tier == "quick" else 5000
    x = ctx.tlc(run_tlc("Greenlets", "Greenlets_export.cfg", workers=1, timeout=900, simulate=f"num={n}", depth=18, seed=ctx.seed + 15,
                        name="glx"), "simulated behaviours for replay")
    if not x.ok or not x.emitted:
        raise MachineryError("no greenlet behaviours exported")
    seen, behs = set(), []
    for e in x.emitted:
        k = json.dumps([e["parent"], e["acts"]], sort_keys=True)
        if k not in seen:
            seen.add(k)
            behs.append({"parent": e["parent"], "acts": e["acts"]})
    d = BUILD / "c15"
    d.mkdir(parents=True, exist_ok=True)
    bpath = d / "behaviours.json"
    bpath.write_text(json.dumps({"behaviours": behs, "bridges": x.emitted[0]["bridges"]}))
    opath = d / "out.json"
    p, _ = run([VENV_PY, str(VERIF / "harness/drivers/greenlet_driver.py"), str(bpath), str(opath)], timeout=1200, env=child_env("3.12"))
    if p.returncode != 0:
        raise MachineryError(f"greenlet driver failed: {p.stderr[-2500:]}")
    o = json.loads(opath.read_text())
    ctx.replays += o["n"]
    ctx.note("observations", o["observations"])
    ctx.note("greenback_scenarios", o["greenback_n"])
    ctx.note("interpreters", ["3.12"])
    for mm in o["mismatches"]:
        if "harness" in mm["what"]:
            raise MachineryError(str(mm))
        ctx.violation(mm["what"] + f" (parents {mm.get('parent')})", mm)
    for mm in o["f8"]:
        ctx.known("F8", mm["what"])
    for b in o["other_thread"]:
        ctx.violation("other thread: " + b, None)
    for b in o["greenback"]:
        ctx.violation(b, None)
    if o["greenback_n"] is None:
        ctx.assume("greenback/trio not importable: bridge part skipped")
    ctx.sample({"parents": behs[0]["parent"], "behaviour": behs[0]["acts"][:8]})
