"""C15 -- greenlet stacks: suspended, current, dead, foreign-thread, and greenback bridges.
Spec: Greenlets.tla (forest evolutions; Expected = the target's own segment; Bridge(d))."""
import json
from concurrent.futures import ThreadPoolExecutor

from ..common import BUILD, VERIF, VENV_PY, MachineryError, child_env, run
from ..tlc import derive_cfg, require_coverage, run_tlc


def portal(ctx):
    """greenback portals: Portal.tla (logical stack -> physical structure -> Walk), replayed under Trio"""
    quick = ctx.tier == "quick"
    cfg = derive_cfg("Portal.cfg", "Portal_q.cfg", {"MaxDepth": "5" if quick else "6", "MaxSteps": "12" if quick else "14"})
    r = ctx.tlc(run_tlc("Portal", cfg, timeout=3600, name="portal"), "greenback portal structures, exhaustive under VIEW")
    if not r.ok:
        ctx.violation(f"model (Portal): {r.violated}", r.trace_text[-2000:])
        return
    require_coverage(r, ["Call", "Return", "Ensure"])
    # self-test of the specification: without the hook of the F17 fix the model must lose the bridge
    neg = run_tlc("Portal", derive_cfg("Portal.cfg", "Portal_f17.cfg", {"MaxDepth": "3", "MaxSteps": "4", "FixedF17": "FALSE"}),
                  timeout=600, name="portal_neg", coverage=False)
    if neg.ok or neg.violated not in ("BridgeContinuesOutside", "InternalsHidden"):
        raise MachineryError(f"Portal.tla with FixedF17=FALSE does not violate the bridge invariants ({neg.violated})")
    behs, seen = [], set()

    def add(emitted):
        for e in emitted:
            k = json.dumps(e["acts"], sort_keys=True)
            if k not in seen:
                seen.add(k)
                behs.append(e)
    x = ctx.tlc(run_tlc("Portal", derive_cfg("Portal_export.cfg", "Portal_x.cfg", {"MaxSteps": "4" if quick else "5", "WithCms": "TRUE"}),
                        timeout=1800, name="portal_x", coverage=False), "every behaviour of 4 (thorough: 5) actions, with-blocks included")
    add(x.emitted)
    nsim = 300 if quick else 4000
    y = ctx.tlc(run_tlc("Portal", derive_cfg("Portal_export.cfg", "Portal_xs.cfg", {"MaxSteps": "12", "MaxDepth": "6", "WithCms": "TRUE"}),
                        workers=1, timeout=1800, simulate=f"num={nsim}", depth=14, seed=ctx.seed + 151, name="portal_xs"),
                "simulated behaviours of 12 actions, depth <= 6")
    add(y.emitted)
    if not behs:
        raise MachineryError("no portal behaviours exported")
    d = BUILD / "c15"
    d.mkdir(parents=True, exist_ok=True)
    nsh = 16

    def shard(i):
        bp, op = d / f"portal_b{i}.json", d / f"portal_o{i}.json"
        bp.write_text(json.dumps({"behaviours": behs[i::nsh]}))
        p, _ = run([VENV_PY, str(VERIF / "harness/drivers/portal_driver.py"), str(bp), str(op)], timeout=3000, env=child_env("3.12"))
        if p.returncode != 0:
            raise MachineryError(f"portal driver failed: {p.stderr[-2500:]}")
        return json.loads(op.read_text())
    with ThreadPoolExecutor(nsh) as ex:
        outs = list(ex.map(shard, range(nsh)))
    nobs = 0
    for o in outs:
        ctx.replays += o["n"]
        nobs += o["observations"]
        for mm in o["mismatches"]:
            if str(mm.get("what", "")).startswith("harness"):
                raise MachineryError(str(mm))
            ctx.violation("greenback portal, %s observation after %d actions: %s" % (mm.get("where"), mm.get("step", -1), mm["what"]), mm)
    ctx.note("portal_behaviours", len(behs))
    ctx.note("portal_observations", nobs)
    ctx.sample({"portal_behaviour": behs[-1]["acts"], "expected_outside_after_last": behs[-1]["obs"][-1]["outside"]})


def check(ctx):
    ctx.explanation = ("Greenlets.tla models a forest of three greenlets (every acyclic parent assignment) driven from the main "
                       "greenlet: start, nested call, return, finish, and extract(target) by main, by the target itself, by a "
                       "child, by an unrelated greenlet; the expectation is always the target's own segment (entry .. switch "
                       "point), empty for unstarted / dead; simulated behaviours are replayed with command-interpreting greenlet "
                       "bodies; plus a greenlet running / suspended in another thread, and greenback await_ bridges of depth "
                       "0..3 under Trio observed from outside and inside the task (expected alternation Bridge(d), internals hidden). "
                       "Portal.tla models one task's logical call stack (async / sync frames; edges await, plain call, await_, "
                       "with_portal_run, with_portal_run_sync; ensure_portal; with-blocks incl. greenback.async_context) and derives "
                       "the physical arrangement greenback makes of it (shim generators, one child greenlet, trampoline, outcome "
                       "send frames, suspended await chains) and what the traversal can reach given the registered hooks; every "
                       "behaviour of 4 actions and simulated ones of 12 are replayed in a real Trio task, each real frame list "
                       "(inside and outside observation after every action) compared frame by frame with the specification's")
    ctx.assume("3.12 only (greenlet / greenback / trio exist only in the project venv); PyPy paths not reachable here")
    r = ctx.tlc(run_tlc("Greenlets", "Greenlets.cfg", timeout=900), "forest evolutions, exhaustive under VIEW")
    if not r.ok:
        ctx.violation(f"model: {r.violated}", r.trace_text[-2000:])
    require_coverage(r, ["Start", "Call", "Return", "Finish", "Observe"])
    n = 400 if ctx.tier == "quick" else 5000
    x = ctx.tlc(run_tlc("Greenlets", "Greenlets_export.cfg", workers=1, timeout=900, simulate=f"num={n}", depth=18, seed=ctx.seed + 15,
                        name="glx"), "simulated behaviours for replay")
    if not x.ok or not x.emitted:
        raise MachineryError("no greenlet behaviours exported")
    seen, behs = set(), []
    for e in x.emitted:
        k = json.dumps([e["parent"], e["acts"]], sort_keys=True)
        if k not in seen:
            seen.add(k)
            behs.append({"parent": e["parent"], "acts": e["acts"]})
    d = BUILD / "c15"
    d.mkdir(parents=True, exist_ok=True)
    bpath = d / "behaviours.json"
    bpath.write_text(json.dumps({"behaviours": behs, "bridges": x.emitted[0]["bridges"]}))
    opath = d / "out.json"
    p, _ = run([VENV_PY, str(VERIF / "harness/drivers/greenlet_driver.py"), str(bpath), str(opath)], timeout=1200, env=child_env("3.12"))
    if p.returncode != 0:
        raise MachineryError(f"greenlet driver failed: {p.stderr[-2500:]}")
    o = json.loads(opath.read_text())
    ctx.replays += o["n"]
    ctx.note("observations", o["observations"])
    ctx.note("greenback_scenarios", o["greenback_n"])
    ctx.note("interpreters", ["3.12"])
    for mm in o["mismatches"]:
        if mm["what"].startswith("harness"):
            raise MachineryError(str(mm))
        ctx.violation(mm["what"] + f" (parents {mm.get('parent')})", mm)
    for mm in o["f8"]:
        # F8 (observer is a descendant of the suspended target) was repaired in /repo e26936e: a fixed entry excuses nothing
        ctx.violation(mm["what"] + f" (parents {mm.get('parent')}; the F8 shape, fixed in e26936e)", mm)
    for b in o["other_thread"]:
        ctx.violation("other thread: " + b, None)
    for b in o["greenback"]:
        ctx.violation(b, None)
    if o["greenback_n"] is None:
        ctx.assume("greenback/trio not importable: bridge part skipped")
    ctx.sample({"parents": behs[0]["parent"], "behaviour": behs[0]["acts"][:8]})
    if o["greenback_n"] is not None:
        portal(ctx)
