"""C13 -- extraction options are scoped to their call tree and thread; stubs honoured.
Spec: Options.tla (Scoped, IdleIsNone, Isolated); binding: schedule replay of call trees grown from real hooks."""
import json
from concurrent.futures import ThreadPoolExecutor

from ..common import BUILD, VERIF, MachineryError, available_interpreters, child_env, run
from ..tlc import derive_cfg, require_coverage, run_tlc


def check(ctx):
    ctx.explanation = ("Options.tla models the thread-local option pair as the code maintains it (set on entry, restored from "
                       "the saved value on exit, also by exception) against the call tree; TLC checks, for every well-nested "
                       "tree of depth <= 3 on two threads under every interleaving, that it equals the options of the innermost "
                       "enclosing extraction, is None when idle, and never changes in another thread's step; simulated "
                       "behaviours (24 steps, 2 threads; thorough 3 threads) are replayed on real threads whose hooks execute "
                       "the next command, comparing after EVERY action what the public API shows (stub vs full for "
                       "for_task=True, contexts filled or empty, guard error outside an extraction)")
    ctx.assume("observations go through the public API only (extract_child / fill_context from hooks); no probe in /repo needed")
    cfg = derive_cfg("Options.cfg", "Options_q.cfg", {"MaxDepth": "3", "MaxSteps": "14"})
    r = ctx.tlc(run_tlc("Options", cfg, timeout=1800), "all call trees of depth <= 3 on 2 threads, all interleavings")
    if not r.ok:
        ctx.violation(f"model: {r.violated}: {r.trace_actions}", r.trace_text[-3000:])
    require_coverage(r, ["CallExtract", "CallChild", "CallFill", "Observe", "Return"])
    n = 250 if ctx.tier == "quick" else 2500
    behaviours = []
    for thr, seed in (('{"t1", "t2"}', 1), ('{"t1", "t2", "t3"}', 2)):
        cfg = derive_cfg("Options_export.cfg", f"Options_x{seed}.cfg", {"Thr": thr})
        x = ctx.tlc(run_tlc("OptionsExport", cfg, workers=1, timeout=900, simulate=f"num={n}", depth=30, seed=ctx.seed + seed,
                            name=f"optx{seed}"), f"simulated schedules, threads {thr}")
        if not x.ok:
            ctx.violation(f"model (simulation): {x.violated}", x.trace_text[-2000:])
        behaviours += x.emitted
    if not behaviours:
        raise MachineryError("no behaviours exported")
    d = BUILD / "m3"
    d.mkdir(parents=True, exist_ok=True)
    bpath = d / "behaviours.json"
    bpath.write_text(json.dumps({"threads": ["t1", "t2", "t3"], "behaviours": behaviours}))
    interps = available_interpreters()

    def one(item):
        v, py = item
        opath = d / f"out_{v}.json"
        p, _ = run([py, str(VERIF / "harness/drivers/options_driver.py"), str(bpath), str(opath)], timeout=1200, env=child_env(v))
        if p.returncode != 0:
            raise MachineryError(f"options driver failed under {v}: {p.stderr[-2000:]}")
        return v, json.loads(opath.read_text())

    with ThreadPoolExecutor(4) as ex:
        outs = dict(ex.map(one, interps.items()))
    ctx.note("interpreters", sorted(outs))
    for v, o in outs.items():
        ctx.replays += o["n"]
        ctx.count("replayed_actions", o["steps"])
        for mm in o["mismatches"]:
            ctx.violation(f"[{v}] after {mm['act']} (step {mm['step']}): {mm['diff']}", {"acts": mm.get("acts")})
    ctx.sample({"schedule": behaviours[0]["acts"][:10], "expected_results": behaviours[0]["outs"][:10]})
