"""C01 -- contexts of a suspended frame are exactly the entered-but-not-exited managers.
Spec: WithLang (semantics of the statement language; Obs = active + exiting at every suspension)."""
from .. import m7


def check(ctx):
    ctx.explanation = ("WithLang.tla gives the small-step semantics of with/async with/try/loops/if and every way of leaving a "
                       "block; TLC explores every path of every enumerated program (systematic families: every exit kind at "
                       "nesting depth 1..3 inside every wrapper, bodies ending in compound statements; plus seeded random "
                       "programs) and exports each behaviour with the observation owed at each suspension; every behaviour is "
                       "replayed in generator / coroutine / async-generator carriers on CPython 3.9-3.12 and "
                       "Frame.contexts / contexts_active_in_frame are compared (identity of obj, is_async, is_exiting, order, "
                       "no InspectionWarning).  The real enter/exit event order is checked against the spec first "
                       "(ground truth); a disagreement there is a machinery error, not a violation")
    ctx.assume("managers have the conventional (self, *exc) signature; programs are CPython-compiled source within the size bound")
    m7.explore(ctx, "suspended", 150, 3000, accept=lambda mm: not mm.get("meta"), quick_stride=2)
