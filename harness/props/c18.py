"""C18 -- tree formatting is well-formed; reading it back recovers the Stack's structure.
Spec: Format.tla (Fmt: prefix markers + payload per line, composed by the rules of _types.py)."""
from .. import m10
from ..common import MachineryError
from . import c18_shape


def check(ctx):
    ctx.explanation = ("Format.tla renders abstract Stack trees (frames with hide / no source line, contexts exiting / hidden / with "
                       "inner stacks / child contexts / child task stacks stub or populated with or without root, leaf, error "
                       "blocks) into lines of prefix markers + payload by the composition rules of _types.py; for every tree x "
                       "(show_contexts, show_hidden_frames) the real Stack built from real frames is formatted in unicode and "
                       "ascii_only and compared line by line (markers exactly, payload by identity of the element), each line "
                       "single and newline-terminated, ascii pure, str == join(format()); reading back: an independent "
                       "recursive-descent reader of the marker lines must recover the tree's Shape, and two trees with different "
                       "Shape must never share one rendering (unique decodability, checked over all generated trees); the same is done for "
                       "trees CONVERTED FROM REAL EXTRACTED STACKS (generator chains, @contextmanager inner stacks, ExitStacks with "
                       "children, exiting managers, hidden frames and contexts, recorded errors also in inner stacks, a leaf, a "
                       "blocked thread, Trio task trees with stub and populated child stacks) on every interpreter")
    ctx.assume("payload text (names, source, reprs) is opaque and free of marker characters; error text has no leading blanks")
    ts, cases, outs = m10.spec_and_real(ctx, 700, 8000)
    if ts is None:
        return
    for v, o in outs.items():
        ctx.replays += o["n"]
        ctx.count("lines_compared", o["lines_compared"])
        for mm in o["mismatches18"]:
            if any(b.startswith("harness") for b in mm["bad"]):
                raise MachineryError(str(mm)[:800])
            ctx.violation(f"[{v}] tree {mm['tid']} show_contexts={mm['ctx']} show_hidden={mm['hidden']}: " + " | ".join(mm["bad"])[:900], mm)
    # reading back (on the spec's lines, which the real output has just been shown to equal)
    n_read, collisions = c18_shape.roundtrip_and_injectivity(cases)
    ctx.note("read_back_cases", n_read)
    for c in collisions[:5]:
        ctx.violation(c, None)
    ctx.sample({"tree": ts[3], "lines": cases[0]["lines"][:8]})
    # the same specification on trees converted from REAL extracted stacks
    rbad, rn, rcases = m10.real_corpus(ctx, "format")
    ctx.replays += rn
    ctx.note("real_stack_renderings", rn)
    for b in rbad[:8]:
        ctx.violation(b[:900], None)
    if rcases:
        n_read2, collisions2 = c18_shape.roundtrip_and_injectivity(rcases)
        ctx.note("read_back_real_cases", n_read2)
        for c in collisions2[:5]:
            ctx.violation("real stacks: " + c, None)
