"""C02 -- contexts of a frame running on the calling thread are exact, also mid-enter/exit.
Spec: WithLang; probes at every pass/susp site, inside every __enter__/__exit__/__aenter__/__aexit__ and one
call level below, for plain functions, running generators, coroutines and async generators."""
from .. import m7


def check(ctx):
    ctx.explanation = ("same program space and semantics as C01 (WithLang.tla), executed without suspending: every probe site "
                       "(body statements, inside each manager's enter/exit method, and a helper called from there) calls "
                       "extract_since(<program frame>) and compares with the spec's observation for that event: the entering "
                       "manager absent, the exiting one last with is_exiting and obj identical, for every exit kind")
    ctx.assume("probes run on the thread that executes the program; async managers do not suspend in this mode")
    m7.explore(ctx, "running", 150, 3000, seed_off=2, accept=lambda mm: not mm.get("meta"), quick_stride=3)
