"""Orchestration for the chain space (Chains.tla): enumerate with TLC, build and check on every interpreter."""
from __future__ import annotations

import json
from concurrent.futures import ThreadPoolExecutor

from .common import BUILD, VERIF, MachineryError, available_interpreters, child_env, run
from .tlc import derive_cfg, run_tlc


def enumerate_chains(ctx, max_links: int):
    cfg = derive_cfg("Chains.cfg", f"Chains_{max_links}.cfg", {"MaxLinks": str(max_links)})
    res = ctx.tlc(run_tlc("Chains", cfg, workers=1, timeout=900, name=f"chains_{ctx.pid}"), f"chains up to {max_links} links: built-in glue tables == throw path")
    if not res.ok:
        ctx.violation(f"Chains model: {res.violated}: {res.trace_actions}", res.trace_text[-2000:])
    if not res.emitted:
        raise MachineryError("no chains emitted")
    return res.emitted


def run_chains(cases, name: str, versions=None, timeout=900):
    d = BUILD / "chains"
    d.mkdir(parents=True, exist_ok=True)
    cpath = d / f"{name}_cases.json"
    cpath.write_text(json.dumps({"cases": cases}))
    interps = available_interpreters(versions or ("3.12", "3.11", "3.10", "3.9"))

    def one(item):
        v, py = item
        opath = d / f"{name}_out_{v}.json"
        p, _ = run([py, str(VERIF / "harness/drivers/chain_driver.py"), str(cpath), str(opath)],
                   timeout=timeout, env=child_env(v))
        if p.returncode != 0:
            raise MachineryError(f"chain driver failed under {v}: {p.stderr[-2000:]}")
        return v, json.loads(opath.read_text())

    with ThreadPoolExecutor(4) as ex:
        return dict(ex.map(one, interps.items()))
