"""Orchestration for machine M10 (Format / Summary): abstract tree generation, TLC given run, real rendering."""
from __future__ import annotations

import json
import random
from concurrent.futures import ThreadPoolExecutor

from .common import BUILD, VERIF, MachineryError, available_interpreters, child_env, run
from .tlc import run_tlc

NONE_STACK = {"t": "none", "root": False, "frames": [], "leaf": False, "error": 0}


class Gen:
    def __init__(self, rng):
        self.rng = rng
        self.fid = 0
        self.cid = 0

    def stack(self, depth, top=False):
        r = self.rng
        nf = r.choice([0, 1, 1, 2, 2, 3] if top else [0, 1, 1, 2])
        frames = [self.frame(depth) for _ in range(nf)]
        return {"t": "stack", "root": r.random() < 0.7, "frames": frames, "leaf": r.random() < 0.3,
                "error": r.choice([0, 0, 0, 1, 2])}

    def frame(self, depth):
        r = self.rng
        self.fid += 1
        f = {"id": self.fid, "hide": r.random() < 0.25, "line": r.random() < 0.8, "ctxs": []}
        if depth > 0:
            for _ in range(r.choice([0, 0, 1, 1, 2])):
                f["ctxs"].append(self.ctx(depth - 1))
            if f["ctxs"] and r.random() < 0.3:
                f["ctxs"][-1]["exiting"] = True
        return f

    def ctx(self, depth):
        r = self.rng
        self.cid += 1
        c = {"id": self.cid, "exiting": False, "hide": r.random() < 0.15, "sl": r.random() < 0.6,
             "inner": dict(NONE_STACK), "children": []}
        if depth > 0:
            if r.random() < 0.4:
                c["inner"] = self.stack(depth - 1)
            for _ in range(r.choice([0, 0, 1, 2])):
                if r.random() < 0.5:
                    c["children"].append({"t": "ctx", "ctx": self.ctx(depth - 1), "st": dict(NONE_STACK)})
                else:
                    st = self.stack(depth - 1) if r.random() < 0.7 else {"t": "stack", "root": r.random() < 0.8, "frames": [], "leaf": False, "error": 0}
                    c["children"].append({"t": "stack", "st": st})
        return c


def trees(n, seed):
    rng = random.Random(seed)
    out = []
    while len(out) < n:
        g = Gen(rng)
        t = g.stack(rng.choice([1, 2, 2, 3]), top=True)
        if g.fid <= 38 and g.cid <= 38:
            out.append(t)
    return out


def spec_and_real(ctx, n_quick, n_thorough):
    n = n_quick if ctx.tier == "quick" else n_thorough
    ts = trees(n, ctx.seed + 18)
    d = BUILD / "m10"
    d.mkdir(parents=True, exist_ok=True)
    gpath = d / f"given_{ctx.pid}.json"
    gpath.write_text(json.dumps(ts))
    res = ctx.tlc(run_tlc("Format", "Format.cfg", workers=1, timeout=1800, env={"FM_GIVEN": str(gpath)}, name=f"fmt_{ctx.pid}"),
                  "Fmt / Entries on given trees x option sets")
    if not res.ok:
        ctx.violation(f"model: {res.violated}", res.trace_text[-2500:])
        return None, None, None
    cases = []
    for e in res.emitted:
        cases.append({"tid": e["tid"], "ctx": e["ctx"], "hidden": e["hidden"], "lines": e["lines"], "entries": e["entries"],
                      "tree": ts[e["tid"] - 1]})
    if len(cases) != 4 * len(ts):
        raise MachineryError(f"expected {4 * len(ts)} cases from TLC, got {len(cases)}")
    cpath = d / f"cases_{ctx.pid}.json"
    cpath.write_text(json.dumps({"cases": cases}))
    pool = d / "verif_fmt_pool.py"
    drv = str(VERIF / "harness/drivers/format_driver.py")
    interps = available_interpreters()
    p, _ = run([interps["3.12"], drv, "--write-pool", str(pool)], timeout=60, env=child_env("3.12"))
    if p.returncode != 0:
        raise MachineryError("could not write the frame pool: " + p.stderr[-500:])

    def one(item):
        v, py = item
        opath = d / f"out_{ctx.pid}_{v}.json"
        p, _ = run([py, drv, str(cpath), str(opath), str(pool)], timeout=1800, env=child_env(v))
        if p.returncode != 0:
            raise MachineryError(f"format driver failed under {v}: {p.stderr[-2000:]}")
        return v, json.loads(opath.read_text())

    with ThreadPoolExecutor(4) as ex:
        outs = dict(ex.map(one, interps.items()))
    ctx.note("interpreters", sorted(outs))
    ctx.note("trees", len(ts))
    return ts, cases, outs
