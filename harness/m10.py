"""Orchestration for machine M10 (Format / Summary): abstract tree generation, TLC given run, real rendering."""
from __future__ import annotations

import json
import random
from concurrent.futures import ThreadPoolExecutor

from .common import BUILD, VERIF, MachineryError, available_interpreters, child_env, run
from .tlc import run_tlc

NONE_STACK = {"t": "none", "root": False, "frames": [], "leaf": False, "error": 0}


class Gen:
    def __init__(self, rng):
        self.rng = rng
        self.fid = 0
        self.cid = 0

    def stack(self, depth, top=False):
        r = self.rng
        nf = r.choice([0, 1, 1, 2, 2, 3] if top else [0, 1, 1, 2])
        frames = [self.frame(depth) for _ in range(nf)]
        return {"t": "stack", "root": r.random() < 0.7, "frames": frames, "leaf": r.random() < 0.3,
                "error": r.choice([0, 0, 0, 1, 2])}

    def frame(self, depth):
        r = self.rng
        self.fid += 1
        f = {"id": self.fid, "hide": r.random() < 0.25, "line": r.random() < 0.8, "ctxs": []}
        if depth > 0:
            for _ in range(r.choice([0, 0, 1, 1, 2])):
                f["ctxs"].append(self.ctx(depth - 1))
            if f["ctxs"] and r.random() < 0.3:
                f["ctxs"][-1]["exiting"] = True
        return f

    def ctx(self, depth):
        r = self.rng
        self.cid += 1
        c = {"id": self.cid, "exiting": False, "hide": r.random() < 0.15, "sl": r.random() < 0.6,
             "inner": dict(NONE_STACK), "children": []}
        if depth > 0:
            if r.random() < 0.4:
                c["inner"] = self.stack(depth - 1)
            for _ in range(r.choice([0, 0, 1, 2])):
                if r.random() < 0.5:
                    c["children"].append({"t": "ctx", "ctx": self.ctx(depth - 1), "st": dict(NONE_STACK)})
                else:
                    st = self.stack(depth - 1) if r.random() < 0.7 else {"t": "stack", "root": r.random() < 0.8, "frames": [], "leaf": False, "error": 0}
                    c["children"].append({"t": "stack", "st": st})
        return c


def trees(n, seed):
    rng = random.Random(seed)
    out = []
    while len(out) < n:
        g = Gen(rng)
        t = g.stack(rng.choice([1, 2, 2, 3]), top=True)
        if g.fid <= 38 and g.cid <= 38:
            out.append(t)
    return out


def spec_and_real(ctx, n_quick, n_thorough):
    n = n_quick if ctx.tier == "quick" else n_thorough
    ts = trees(n, ctx.seed + 18)
    d = BUILD / "m10"
    d.mkdir(parents=True, exist_ok=True)
    gpath = d / f"given_{ctx.pid}.json"
    gpath.write_text(json.dumps(ts))
    res = ctx.tlc(run_tlc("Format", "Format.cfg", workers=1, timeout=1800, env={"FM_GIVEN": str(gpath)}, name=f"fmt_{ctx.pid}"),
                  "Fmt / Entries on given trees x option sets")
    if not res.ok:
        ctx.violation(f"model: {res.violated}", res.trace_text[-2500:])
        return None, None, None
    cases = []
    for e in res.emitted:
        cases.append({"tid": e["tid"], "ctx": e["ctx"], "hidden": e["hidden"], "lines": e["lines"], "entries": e["entries"],
                      "tree": ts[e["tid"] - 1]})
    if len(cases) != 4 * len(ts):
        raise MachineryError(f"expected {4 * len(ts)} cases from TLC, got {len(cases)}")
    cpath = d / f"cases_{ctx.pid}.json"
    cpath.write_text(json.dumps({"cases": cases}))
    pool = d / "verif_fmt_pool.py"
    drv = str(VERIF / "harness/drivers/format_driver.py")
    interps = available_interpreters()
    p, _ = run([interps["3.12"], drv, "--write-pool", str(pool)], timeout=60, env=child_env("3.12"))
    if p.returncode != 0:
        raise MachineryError("could not write the frame pool: " + p.stderr[-500:])

    def one(item):
        v, py = item
        opath = d / f"out_{ctx.pid}_{v}.json"
        p, _ = run([py, drv, str(cpath), str(opath), str(pool)], timeout=1800, env=child_env(v))
        if p.returncode != 0:
            raise MachineryError(f"format driver failed under {v}: {p.stderr[-2000:]}")
        return v, json.loads(opath.read_text())

    with ThreadPoolExecutor(4) as ex:
        outs = dict(ex.map(one, interps.items()))
    ctx.note("interpreters", sorted(outs))
    ctx.note("trees", len(ts))
    return ts, cases, outs


UNI = {"SF": "╠ ", "CF": "║ ", "LEAF": "╚ ", "SC": "├ ", "CC": "│ ", "SCC": "├─",
       "SCH": "─ ", "COD": "└ ", "CCH": "  ", "ERR": "  "}
ASC = {"SF": "+ ", "CF": "| ", "LEAF": "+ ", "SC": ". ", "CC": "  ", "SCC": "  ", "SCH": ". ", "COD": "` ", "CCH": "  ", "ERR": "  "}


def real_corpus(ctx, want):
    """Format.tla on trees converted from REAL extracted stacks (realfmt_driver.py): returns a list of problems
    (strings) for want = 'format' (C18: marker prefixes, line counts, str == join) or 'summary' (C19: entries)."""
    d = BUILD / "m10"
    d.mkdir(parents=True, exist_ok=True)
    drv = str(VERIF / "harness/drivers/realfmt_driver.py")
    interps = available_interpreters()

    def one(item):
        v, py = item
        opath = d / f"real_{ctx.pid}_{v}.json"
        p, _ = run([py, drv, str(opath)], timeout=600, env=child_env(v))
        if p.returncode != 0:
            raise MachineryError(f"real-format driver failed under {v}: {p.stderr[-2000:]}")
        return v, json.loads(opath.read_text())["cases"]

    with ThreadPoolExecutor(4) as ex:
        per = dict(ex.map(one, interps.items()))
    allc = [(v, c) for v, cs in sorted(per.items()) for c in cs]
    gpath = d / f"real_given_{ctx.pid}.json"
    gpath.write_text(json.dumps([c["tree"] for _, c in allc]))
    res = ctx.tlc(run_tlc("Format", "Format.cfg", workers=1, timeout=1800, env={"FM_GIVEN": str(gpath)}, name=f"fmtreal_{ctx.pid}"),
                  "Fmt / Entries on trees converted from real extracted stacks")
    if not res.ok:
        return [f"model on real trees: {res.violated}"], 0, []
    bad, n = [], 0
    cases_for_reader = []
    for e in res.emitted:
        v, c = allc[e["tid"] - 1]
        r = next(x for x in c["renderings"] if x["ctx"] == e["ctx"] and x["hidden"] == e["hidden"])
        tag = f"[{v}] real stack '{c['label']}' show_contexts={e['ctx']} show_hidden={e['hidden']}"
        n += 1
        if want == "format":
            cases_for_reader.append({"tid": e["tid"], "ctx": e["ctx"], "hidden": e["hidden"], "lines": e["lines"], "tree": c["tree"]})
            for name, table, real in (("unicode", UNI, r["uni"]), ("ascii_only", ASC, r["asc"])):
                if len(real) != len(e["lines"]):
                    bad.append(f"{tag}: format({name}) has {len(real)} lines, spec {len(e['lines'])}: real {real[:6]}")
                    continue
                for i, (ln, x) in enumerate(zip(real, e["lines"])):
                    prefix = "".join(table[t] for t in x["m"])
                    body = ln[:-1] if ln.endswith("\n") else None
                    if body is None or "\n" in body:
                        bad.append(f"{tag}: format({name}) line {i} is not one newline-terminated line: {ln!r}")
                        break
                    kind = x["p"][0]
                    if kind == "blank":
                        ok = body.rstrip() == prefix.rstrip()
                    else:
                        ok = body.startswith(prefix)
                        rest = body[len(prefix):]
                        if ok and kind == "frame":
                            ok = rest.startswith(c["frame_attrs"][str(x["p"][1])][2].join(("", " in "))) or (" in " in rest and c["frame_attrs"][str(x["p"][1])][2] + " in " in rest)
                        elif ok and kind == "code":
                            ok = rest == c["frame_attrs"][str(x["p"][1])][3]
                        elif ok and kind == "errhdr":
                            ok = rest == "Error while extracting stack:"
                        elif ok and kind == "hdr":
                            ok = rest.startswith("stackscope.Stack")
                    if not ok:
                        bad.append(f"{tag}: format({name}) line {i} {ln!r} does not carry markers {x['m']} / payload {x['p']}")
                        break
                box = set("".join(UNI.values()))
                if (name == "ascii_only" and any(ord(ch) > 127 for ln in real for ch in ln)
                        and not any(ord(ch) > 127 and ch not in box for ln in r["uni"] for ch in ln)):
                    bad.append(f"{tag}: ascii_only output is not ASCII although names, source and reprs are")
            # ascii_only is the same text with each prefix marker replaced
            if len(r["uni"]) == len(e["lines"]) == len(r["asc"]):
                for i, (u, a, x) in enumerate(zip(r["uni"], r["asc"], e["lines"])):
                    if x["p"][0] == "blank":
                        continue
                    pu, pa = "".join(UNI[t] for t in x["m"]), "".join(ASC[t] for t in x["m"])
                    if u[len(pu):] != a[len(pa):]:
                        bad.append(f"{tag}: line {i}: after the markers the ascii_only line reads {a[len(pa):]!r}, the default one {u[len(pu):]!r}")
                        break
            if not r["str_is_join"]:
                bad.append(f"{tag}: str(x) is not the concatenation of format()")
        else:
            if not r.get("flat_ok", True):
                bad.append(f"{tag}: format_flat() is not the header + StackSummary.format() of the summary + leaf and error lines")
            ents = e["entries"]
            if len(ents) != len(r["summary"]):
                bad.append(f"{tag}: summary has {len(r['summary'])} entries, spec {len(ents)}")
                continue
            for x, (fn, lineno, name) in zip(ents, r["summary"]):
                if x[0] == "frame":
                    fa = c["frame_attrs"][str(x[1])]
                    ok = [fn, lineno, name] == fa[:3]
                else:
                    fa = c["frame_attrs"][str(x[2])]
                    want_line = c["ctx_lines"][str(x[1])] if x[3] else fa[1]
                    ok = fn == fa[0] and lineno == want_line and name.startswith(fa[2])
                if not ok:
                    bad.append(f"{tag}: summary entry {fn.split('/')[-1]}:{lineno} {name!r} does not match spec entry {x}")
                    break
    return bad, n, cases_for_reader
