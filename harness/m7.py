"""Orchestration for machine M7 (WithLang): program enumeration, TLC path exploration, replay in the real
interpreters (suspended / referents / running / purity modes)."""
from __future__ import annotations

import json
from concurrent.futures import ThreadPoolExecutor
from typing import Dict, List

from . import progs
from .common import BUILD, VERIF, MachineryError, available_interpreters, child_env, run
from .tlc import run_tlc

D = BUILD / "m7"


def programs_and_behaviours(ctx, n_random: int, seed: int, tag: str, families: bool = True, tlc_shards: int = 8,
                            targets: bool = False):
    D.mkdir(parents=True, exist_ok=True)
    ps = progs.build_programs(n_random, seed, families, targets)
    ppath = D / f"{tag}_programs.json"
    ppath.write_text(json.dumps(ps))
    # TLC explores every path of every program; shard the program list over parallel single-worker runs
    shards = [ps[i::tlc_shards] for i in range(tlc_shards)]
    index = [list(range(len(ps)))[i::tlc_shards] for i in range(tlc_shards)]

    def one(i):
        sp = D / f"{tag}_programs_{i}.json"
        sp.write_text(json.dumps(shards[i]))
        res = run_tlc("WithLang", "WithLang.cfg", workers=1, timeout=1800, coverage=(i == 0),
                      env={"WL_PROGS": str(sp)}, name=f"wl_{tag}_{i}")
        return i, res

    with ThreadPoolExecutor(tlc_shards) as ex:
        results = list(ex.map(one, range(tlc_shards)))
    behaviours = []
    for i, res in results:
        ctx.tlc(res, f"WithLang paths, program shard {i}")
        if not res.ok:
            raise MachineryError(f"WithLang sanity property {res.violated} violated: the semantics is wrong\n{res.trace_text[-1500:]}")
        for b in res.emitted:
            b["pid"] = index[i][b["pid"] - 1] + 1
            behaviours.append(b)
    behaviours.sort(key=lambda b: (b["pid"], b["mse"], b["path"]))
    bpath = D / f"{tag}_behaviours.json"
    bpath.write_text(json.dumps(behaviours))
    return ps, behaviours, ppath, bpath


def run_mode(mode: str, ppath, bpath, tag: str, versions=None, shards: int = 4, timeout: int = 1800,
             stride: int = 1, seed_offset: int = 0) -> Dict[str, dict]:
    """stride > 1: only every stride-th behaviour is replayed (quick tiers of the expensive modes)"""
    interps = available_interpreters(versions or ("3.12", "3.11", "3.10", "3.9"))
    jobs = [(v, py, i) for v, py in interps.items() for i in range(shards)]

    def one(job):
        v, py, i = job
        opath = D / f"{tag}_{mode}_{v}_{i}.json"
        p, _ = run([py, str(VERIF / "harness/drivers/runner_min.py"), str(ppath), str(bpath), str(opath), mode,
                    "shard", str(i * stride + (seed_offset % stride)), str(shards * stride)], timeout=timeout, env=child_env(v))
        if p.returncode != 0:
            raise MachineryError(f"runner ({mode}) failed under {v}: {p.stderr[-3000:]}")
        return v, json.loads(opath.read_text())

    with ThreadPoolExecutor(16) as ex:
        parts = list(ex.map(one, jobs))
    out: Dict[str, dict] = {}
    for v, r in parts:
        acc = out.setdefault(v, {"runs": 0, "observations": 0, "exit_observations": 0, "meta_checked": 0,
                                 "mismatches": [], "gt_errors": [], "skipped": 0})
        for k in ("runs", "observations", "exit_observations", "meta_checked", "skipped"):
            acc[k] += r[k]
        acc["mismatches"] += r["mismatches"]
        acc["gt_errors"] += r["gt_errors"]
    for v, acc in out.items():
        if acc["gt_errors"]:
            g = acc["gt_errors"][0]
            raise MachineryError(f"[{v}] ground truth mismatch (the WithLang semantics disagrees with CPython): {g['what']}\n"
                                 f"pid={g['pid']} carrier={g['carrier']} mse={g['mse']} path={g['path']}\n{g['source']}")
    return out


def explore(ctx, mode: str, n_random_quick: int, n_random_thorough: int, seed_off: int = 0, targets: bool = False,
            families: bool = True, accept=None, quick_stride: int = 1, thorough_stride: int = 1):
    """common body of the M7 checks: enumerate, let TLC find every path, replay in `mode` on all interpreters.
    `accept(mismatch) -> bool`: which mismatches belong to the property being checked."""
    n = n_random_quick if ctx.tier == "quick" else n_random_thorough
    tag = ctx.pid.lower()
    ps, bs, pp, bp = programs_and_behaviours(ctx, n, ctx.seed + seed_off, tag, families=families, targets=targets)
    ctx.note("programs", len(ps))
    ctx.note("behaviours_from_tlc", len(bs))
    stride = quick_stride if ctx.tier == "quick" else thorough_stride
    ctx.note("behaviour_stride", stride)
    out = run_mode(mode, pp, bp, tag, shards=4, stride=stride, seed_offset=ctx.seed, timeout=3000)
    ctx.note("interpreters", sorted(out))
    per = {}
    for v, o in sorted(out.items()):
        per[v] = {k: o[k] for k in ("runs", "observations", "exit_observations", "meta_checked")}
        ctx.replays += o["runs"]
        for mm in o["mismatches"]:
            if accept is not None and not accept(mm):
                continue
            src = mm.pop("source", None)
            ctx.violation(f"[{v}] program {mm.get('pid')} carrier {mm.get('carrier')} mse={mm.get('mse')} path={mm.get('path')} "
                          f"at {mm.get('w')}: {mm['what']}: spec {mm.get('exp')} stackscope {mm.get('got')} "
                          f"{mm.get('warnings') or ''}", {"mismatch": mm, "source": src, "interpreter": v})
    ctx.note("per_interpreter", per)
    if bs:
        b = bs[len(bs) // 2]
        ctx.sample({"program": ps[b["pid"] - 1]["body"], "behaviour": {"mse": b["mse"], "path": b["path"], "out": b["out"],
                                                                      "events": b["hist"][:6]}})
    if not any(o["observations"] for o in out.values()):
        raise MachineryError("vacuous: no observations")
    return ps, bs, out
