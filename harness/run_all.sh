#!/bin/bash
# usage: harness/run_all.sh <quick|thorough> [ids...]   -- runs the checks one after another, prints one line each
tier=${1:-quick}; shift
cd "$(dirname "$0")/.."
./setup.sh >/dev/null || exit 2
ids="$@"; [ -z "$ids" ] && ids="C01 C02 C03 C04 C05 C06 C07 C08 C09 C10 C11 C12 C13 C14 C15 C16 C17 C18 C19 C20"
worst=0
for id in $ids; do
  s=$(date +%s)
  ./check $id --tier $tier > /tmp/run_all_$id.out 2>&1; rc=$?
  e=$(date +%s)
  echo "$id rc=$rc $((e-s))s $(grep -E '^(OK|VIOLATION|MACHINERY)' /tmp/run_all_$id.out | head -1 | cut -c1-160)"
  grep -E '^KNOWN-FINDING' /tmp/run_all_$id.out | cut -c1-60
  if [ $rc -ne 0 ]; then grep -m3 "detail:" /tmp/run_all_$id.out | cut -c1-300; [ $rc -gt $worst ] && worst=$rc; fi
done
exit $worst
