"""Rewrites the table of DESIGN.md section 0.3 from the evidence files of the last quick run (evidence/*.json)."""
import json
import re
from pathlib import Path

V = Path(__file__).resolve().parent.parent


def main():
    rows = ["| id | wall | TLC distinct states | behaviours / inputs replayed on the implementation | recorded traces validated |",
            "|---|---|---|---|---|"]
    for i in range(1, 21):
        pid = "C%02d" % i
        d = json.loads((V / "evidence" / f"{pid}.json").read_text())
        if d["tier"] != "quick":
            raise SystemExit(f"{pid}: evidence is from the {d['tier']} tier")
        c = d["coverage"]
        rows.append("| %s | %d s | %s | %s | %s |" % (pid, round(d["wall_s"]), f"{c['states']:,}".replace(",", " "),
                                                     f"{c['behaviours_replayed_on_impl']:,}".replace(",", " "),
                                                     f"{c['traces_validated_against_impl']:,}".replace(",", " ")))
    p = V / "DESIGN.md"
    s = p.read_text()
    m = re.search(r"(### 0\.3 Quick-tier cost and coverage \(measured\)\n\n)(\|.*?\n)(?=\n)", s, re.S)
    if not m:
        raise SystemExit("table of section 0.3 not found")
    s = s[:m.start(2)] + "\n".join(rows) + "\n" + s[m.end(2):]
    p.write_text(s)


if __name__ == "__main__":
    main()
