"""Orchestration for machine M4 (GlueInstall)."""
from __future__ import annotations

import json
from concurrent.futures import ThreadPoolExecutor

from .common import BUILD, VERIF, MachineryError, available_interpreters, child_env, run
from .tlc import derive_cfg, run_tlc

# attribute vectors: must mirror the definitions in spec/MC_GlueInstall.tla
VECTORS = {
    "both": dict(Mod="ModAB", HasB="ModAB", Flavour="FlavBoth", ImpTarget='"b"',
                 mods=["a", "b"], hasB=["a", "b"], flavour={"a": "ok", "b": "none"}, imp="b"),
    "raise": dict(Mod="ModAB", HasB="NoMods", Flavour="FlavRaise", ImpTarget='"b"',
                  mods=["a", "b"], hasB=[], flavour={"a": "raises", "b": "ok"}, imp="b"),
    "imports": dict(Mod="ModABC", HasB="OnlyC", Flavour="FlavImports", ImpTarget='"c"',
                    mods=["a", "b", "c"], hasB=["c"], flavour={"a": "imports", "b": "none", "c": "ok"}, imp="c"),
    "removes": dict(Mod="ModAB", HasB="ModAB", Flavour="FlavRemoves", ImpTarget='"b"',
                    mods=["a", "b"], hasB=["a", "b"], flavour={"a": "removes", "b": "ok"}, imp="b"),
    "alias": dict(Mod="ModAB", HasB="ModAB", Flavour="FlavAlias", ImpTarget='"b"',
                  mods=["a", "b"], hasB=["a", "b"], flavour={"a": "none", "b": "none"}, imp="b", alias=True),
    "mix3": dict(Mod="ModABC", HasB="ModBC", Flavour="FlavMix3", ImpTarget='"c"',
                 mods=["a", "b", "c"], hasB=["b", "c"], flavour={"a": "ok", "b": "raises", "c": "none"}, imp="c"),
}


def cfg_for(base: str, vec: str, name: str, **over) -> str:
    v = VECTORS[vec]
    o = {"Mod": v["Mod"], "HasB": v["HasB"], "Flavour": v["Flavour"], "ImpTarget": v["ImpTarget"]}
    o.update({k: str(x) for k, x in over.items()})
    return derive_cfg(base, name, o)


def model(ctx, vec: str, **over):
    cfg = cfg_for("GI_both.cfg", vec, f"GI_{vec}_{ctx.pid}.cfg", **over)
    return run_tlc("MC_GlueInstall", cfg, timeout=1800, name=f"gi_{vec}")


def export(ctx, vec: str, num: int, seed: int, depth: int = 90, **over):
    cfg = cfg_for("GI_export.cfg", vec, f"GI_export_{vec}_{ctx.pid}.cfg", **over)
    return run_tlc("GlueInstallExport", cfg, workers=1, timeout=900, simulate=f"num={num}", depth=depth, seed=seed,
                   name=f"gix_{vec}")


def replay(vec: str, behaviours, tag: str, versions=None, timeout=900):
    d = BUILD / "m4"
    d.mkdir(parents=True, exist_ok=True)
    v = VECTORS[vec]
    bpath = d / f"{tag}_{vec}_beh.json"
    bpath.write_text(json.dumps({"config": {"mods": v["mods"], "hasB": v["hasB"], "flavour": v["flavour"], "imp": v["imp"],
                                            "alias": bool(v.get("alias"))},
                                 "behaviours": behaviours}))
    interps = available_interpreters(versions or ("3.12", "3.11", "3.10", "3.9"))

    def one(item):
        ver, py = item
        opath = d / f"{tag}_{vec}_out_{ver}.json"
        p, _ = run([py, str(VERIF / "harness/drivers/glue_driver.py"), str(bpath), str(opath)], timeout=timeout, env=child_env(ver))
        if p.returncode != 0:
            raise MachineryError(f"glue driver failed under {ver}: {p.stderr[-2000:]}")
        return ver, json.loads(opath.read_text())

    with ThreadPoolExecutor(4) as ex:
        return dict(ex.map(one, interps.items()))
