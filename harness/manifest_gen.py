"""Regenerates /verif/MANIFEST.json from the table below (kept valid at all times)."""
import json
from pathlib import Path

VERIF = Path(__file__).resolve().parent.parent
PROPS = [json.loads(l)["id"] for l in open(VERIF / "properties.jsonl")]

HOOK_COMMITS = ["41fbf90", "f0c0cb5", "66fa2c6"]

MC = "model_checking"
CHECKS = {
    "C10": dict(
        technique="TLA+ spec of extract_iter's work-list + documented rules as reference, TLC exhaustive over hook tables; given-table behaviours replayed on the real hooks under 3.9-3.12",
        text="TLC proves algorithm == documented rules (EquivRef), never-escapes and guard termination for every pair of hook tables within the stated bounds; thousands of table sets (curated + seeded random) are run through the same spec and replayed through unwrap_stackitem/elaborate_frame registrations on real frames, comparing frames, leaf, errors and extract_outermost with the spec's terminal state",
        note="bounded tables (quick: 2 frames/2 wrappers/1 leaf exhaustively, 3/3/1 by given tables); deterministic hooks; TLC and the JSON bridge are trusted",
        ref="3.1, 4 C10"),
    "C04": dict(
        technique="TLA+ spec of StackSlice semantics (RefSlice) and operator-by-operator transcription of unwrap_stackslice (AlgSlice) in Slice.tla; TLC checks equality for every real stack shape x (outer, inner, limit); every query replayed at the innermost frame of real stacks",
        text="shapes are measured on the stacks the harness really builds (1..3 nested greenlets; plain, running-generator and running-coroutine levels; thread bootstrap frames), TLC enumerates all queries for them, and the real extraction must return exactly the frames RefSlice names (identity), with no stackscope frames, root None, and the extract_since / extract_until wrappers agreeing",
        note="outer <= inner; greenlet segments only on 3.12; other-thread search (observation O2) not claimed",
        ref="3.7, 4 C04"),
    "C05": dict(
        technique="TLC on ExtractIter with raising hook-table entries; given-table replay with fault-free siblings; k-th-call fault injection on real scenarios with TLC trace validation of the faulty runs",
        text="exhaustive over all tables with <= 2 raising entries on the model (never escapes, every fault recorded, hook-raising frame kept un-hidden, result == documented rules); thousands of faulty table sets replayed on the real hooks under 3.9-3.12 comparing the error list tag by tag; every hook call of a corpus of real scenarios made to raise in turn, injected exception located in the Stack tree, recorded traces accepted by ExtractIterTrace",
        note="faults are Exception subclasses; corpus is finite (5 scenarios, 7 hook kinds, all k; pairs sampled); F13 known finding for one pair shape",
        ref="3.1, 4 C05"),
    "C03": dict(
        technique="TLA+ chain space with the built-in unwrap rules (Chains.tla), TLC enumeration; every chain built for real and compared with spec, throw() path and line numbers; extraction traces validated against ExtractIterTrace; Backport.tla: the rows of glue_async_generator (async_generator backport: hidden step frames, pruned yield_, ANextIter / coroutine-wrapper unwrapping) over chains of coroutines, native and backport async generators, replayed on 3.12",
        text="all typed chains up to 3 (thorough 4) links over coroutine / generator-based coroutine / generator / async generator (anext, asend, async for, athrow, aclose) / __await__ adapters x terminators are enumerated by TLC, which also checks that the glue rule table yields the throw path; each is replayed on 3.9-3.12 and the H1 trace of each real extraction must be a behaviour of ExtractIter",
        note="chain length bound; links share four code objects (frames are distinct objects); handlers are added to every link so tracebacks are complete on 3.9-3.11",
        ref="3.7, 4 C03"),
    "C01": dict(
        technique="TLA+ small-step semantics of the with/try/loop statement language (WithLang.tla); TLC explores every path of every enumerated program; each behaviour replayed in CPython 3.9-3.12 comparing Frame.contexts with the spec's active/exiting state at every suspension",
        text="the expectation at each suspension comes from the language semantics, not from bytecode; the semantics itself is validated against the interpreter on every run (enter/exit event order), so only spec == CPython != stackscope is a violation",
        note="program size bound (families: every exit kind x depth 1..3 x wrappers x async mixes; bodies ending in compound statements; seeded random programs up to 9 statements, <= 5 branch choices); match statements not generated",
        ref="3.6, 4 C01"),
    "C02": dict(
        technique="WithLang.tla behaviours executed without suspension; probes at every statement, inside every enter/exit method and one call below compare extract_since(program frame) with the spec state of that event; 4 carriers x 3.9-3.12",
        text="every probe site of every path of every program is compared with the specification's observation for that instant",
        note="as C01; quick tier replays every second behaviour; managers in rotation: Python classes, aliased methods, generator-based, ExitStack, C-implemented (io.StringIO subclass calling back into Python), re-entrant (one object, two open blocks); deep family with 17-18 managers open in one frame",
        ref="3.6, 4 C02"),
    "C06": dict(
        technique="WithLang.tla + Observe stuttering step: observed runs (all / seeded subsets of suspension points, 1-3 repetitions) must still follow the TLC behaviour event by event and equal the un-observed transcript; harness measures collectability; differential leg under Trio: enumerated cancel-scope programs (deadline none / ahead / passed-unnoticed / cancelled, shield, observer position) run observed and un-observed under a virtual clock",
        text="perturbation would make the recorded history diverge from the spec's behaviour; equality of repeated extractions and weakref death of all managers after dropping the stacks are measured on each behaviour",
        note="refcount / collectability / no-crash clauses are measurements on explored behaviours, not model-level facts (DESIGN.md section 6); quick tier replays every fifth behaviour",
        ref="3.6, 4 C06"),
    "C07": dict(
        technique="TLA+ specs of the frame snapshot protocol vs. a racing target (FrameSnapshot.tla) and of unwrap_thread's alive/ident protocol with ident reuse (ThreadUnwrap.tla); TLC over every interleaving; interleavings replayed on real threads blocked at guarded probes; blocked-thread exactness; free-running stress in a subprocess; trace validation (FrameSnapshotTrace.tla) of thousands of free-running inspect_frame calls recorded through the probes, each with the target position the probe saw",
        text="no crash / no use-after-free / snapshot consistent with one instruction position / bounded attempts / frames belong to the thread hold on the model for every interleaving (the config without the code's GIL assumption shows the use-after-free and is reported as an assumption); hundreds of interleavings are forced on a real target and a real inspector (3.11, 3.12) and all ThreadUnwrap behaviours incl. ident reuse on 3.9-3.12; blocked threads depth 1..5 x 0..3 managers, unstarted, finished; every recorded free-running call is a run of the inspector automaton (no read after a failed re-check, trimming depth from CPython's exception table for this attempt, bounded attempts), a corrupted trace is shown to be rejected",
        note="'never crashes' is empirical over the replayed schedules and the stress; F10 fixed; F15 (3.9/3.10 implementation has no protocol; stress can SIGSEGV) known finding; probe placement preserves the atomicity of re-check + slot read",
        ref="3.5, 4 C07"),
    "C08": dict(
        technique="WithLang.tla behaviours + systematic sweep of 28 target forms x 6 layouts x arity x sync/async; start_line and varname of every reported context compared with the program AST on 3.9-3.12",
        text="which manager is reported where comes from the spec; the line of its with keyword and its target come from the AST that was rendered; varname is parsed and compared structurally",
        note="static leg (stdlib with statements, unexecuted) not claimed; target grammar is the table in harness/progs.py",
        ref="3.6, 4 C08"),
    "C18": dict(
        technique="TLA+ transcription of the tree renderer as a pure function over abstract Stack trees (Format.tla: Fmt = prefix markers + payload per line); real Stacks built from real frames are formatted and compared line by line with Fmt; independent reader recovers the nesting; unique decodability checked over all generated trees",
        text="for every generated tree (frames hidden / without source line, contexts exiting / hidden / with inner stacks, child contexts, child task stacks stub or populated, leaf, error blocks) x the four (show_contexts, show_hidden_frames) sets x unicode/ascii: markers must match exactly and payloads by element identity; hidden iff show_hidden_frames, show_contexts=False is the frame series (TLC invariants); str == join(format())",
        note="payload text opaque; blank separator lines are not part of the nesting (an invisible populated child stack and a stub differ only by blank lines); trees sampled by a seeded generator (depth <= 3), not exhaustively",
        ref="3.9, 4 C18"),
    "C19": dict(
        technique="Format.tla Entries (the summary projection) on the same abstract trees; real as_stdlib_summary()/format_flat() compared entry by entry, pickled, searched for reachable frames",
        text="entries in order with (file, line, annotated name): context entries at the with-line or the frame's line, inner stacks with contexts, child contexts, frame's own entry omitted only when its last context is exiting; capture_locals on and off; pickle round trip; no FrameType reachable; format_flat == header + StackSummary.format() + leaf + error",
        note="as C18",
        ref="3.9, 4 C19"),
    "C20": dict(
        technique="WithLang.tla behaviours observed in referents mode; the ObsReferents relaxation (ordered super-sequence, extras only entering/exiting manager, is_exiting iff exit in progress) decided per observation on 3.9-3.12; Trickery.tla: the mode switch at the grain of the code (lock-free check, lock acquisition, re-check + self-test under the lock), every history of 5 (thorough 6; invariants on 7) steps of two threads replayed on real threads held at the lock by a gate; the design without the re-check must be rejected by TLC",
        text="same behaviours as C01 with set_trickery_enabled(False); the relaxed acceptance rule is the property's own statement",
        note="as C01",
        ref="3.6, 3.10, 4 C20"),
    "C17": dict(
        technique="TLA+ spec of add_glue_as_needed at probe-point granularity (GlueInstall.tla), TLC exhaustive over thread interleavings x sys.modules histories; simulated behaviours replayed on real threads blocked at guarded yield points, state compared after every action",
        text="exhaustive: 2 threads x 2 extractions x <= 3 environment actions per attribute vector (own glue, built-in, both, raising, importing, removing); replay: the controller releases exactly the thread TLC scheduled and compares sys.modules, pending table, module attributes, cache, lock, call log; the property is also evaluated on the real state at every extraction return",
        note="F4 (length-only cache) known finding with an independent history signature; F9 fixed; re-created module objects and re-entrant glue (O3) not modelled",
        ref="3.4, 4 C17"),
    "C09": dict(
        technique="TLA+ spec of ExitStack callback lists and of the expected Context tree of a manager tree (CtxTree.tla: ExitStackOps, Unfold) on given trees; real trees built and extracted, compared node by node; exit stacks compared after each operation on the live object",
        text="all depth-1 trees, all registration-operation sequences up to length 2 (thorough 3) over the 10 registration methods + pop_all/close, sampled deeper trees; suspended in the body and while the root is exiting; 3.9-3.12",
        note="push(manager) and enter_context(manager) are observationally identical (both store manager.__exit__) and are expected to render alike; exiting variants for async plain / generator-based roots only",
        ref="3.2, 4 C09"),
    "C11": dict(
        technique="TLA+ spec of fill_context's loop and the contextlib glue's unwrap paths on given hook tables (FillContext.tla); TLC checks call-pattern / reset / prune / guard on every history; tables replayed through the public hooks outside and inside an extraction",
        text="every chain of length 0..4 over plain / generator-based (registered or not) managers with every ending and elaborate effect, exiting or not, cycles with the real bound 100, plus seeded random tables; final Context and hook call log compared on 3.9-3.12",
        note="4 manager ids; sync @contextmanager only; hooks are functions of the manager",
        ref="3.2, 4 C11"),
    "C12": dict(
        technique="TLA+ spec of identity-keyed registries (CodeDispatch.tla): TLC enumerates towers, nested-name paths, customize combinations and all short Register/Dispatch and IdentityDict histories over equal-but-distinct keys; every scenario executed against the real API",
        text="towers of depth <= 3 are really called and the code object that ran is compared by identity with get_code's answer; registrations on one of two equal code objects must not apply to the other; IdentityDict is compared with the model map after each operation (results, exceptions, order)",
        note="raw classmethod/staticmethod objects only as the outermost layer; names unique per scope (reused across scopes); operation histories of length 3 exhaustively, 7 by simulation",
        ref="3.8, 4 C12"),
    "C13": dict(
        technique="TLA+ spec of the thread-local option stack against per-thread call trees (Options.tla), TLC exhaustive over trees x interleavings; simulated schedules replayed on real threads whose hooks grow the call tree one action at a time",
        text="Scoped / IdleIsNone / Isolated for all call trees of depth <= 3 on two threads; 2- and 3-thread schedules of 24 actions replayed with the public-API observation (stub vs full, contexts vs bare, guard error) compared after every action on 3.9-3.12",
        note="depth <= 3; observations only through extract_child / fill_context; hooks that raise are represented by extract_outermost ending by exception through push()'s finally",
        ref="3.3, 4 C13"),
    "C14": dict(
        technique="TLA+ spec of Trio task-tree evolution (TaskTree.tla; the state is the expected extraction), TLC exhaustive under VIEW + simulated evolutions replayed by command-interpreting Trio tasks; extract(root, recurse_child_tasks=True) compared with the spec tree at every second step; FromThread.tla (foreign threads calling from_thread.run with a token: queued / serving / returned / called again, Trio thread possibly stuck in synchronous code) replayed with real threads",
        text="open-nursery (four source forms of the body), start-child, leave-body (blocks in __aexit__ while children live), child-finishes over <= 6 tasks and nesting <= 3; nurseries by identity in nesting order, children by root identity, is_exiting, no error / warning; spec tree first checked against Trio's child_nurseries / child_tasks; to_thread / from_thread ping-pong depth 0..2, outside and inside; tasks may install greenback portals (expected tree unchanged); extract(foreign thread) = its own frames (identity with sys._current_frames) plus, only while its call is served, the serving task's frames afn t(d) s(d) .. t(0); children started with await nursery.start(fn) (StartPending / Started: the child lives in the nursery Trio opens inside start() until it calls started())",
        note="3.12 only; one trio.run per behaviour; F18 (serving task not found while it handles a re-entrant call) was found by this check and repaired in /repo (3993639)",
        ref="3.7, 4 C14"),
    "C15": dict(
        technique="TLA+ spec of greenlet forests (Greenlets.tla: parent assignments, start/call/return/finish, observers), TLC exhaustive under VIEW + simulated behaviours replayed with command-interpreting greenlet bodies; greenback bridges Bridge(d) replayed under Trio; Portal.tla (a task's logical call stack over await / call / await_ / with_portal_run / with_portal_run_sync / ensure_portal edges -> the physical arrangement greenback makes of it -> what the traversal reaches given the registered hooks), every behaviour of 4 actions + simulated ones of 12 replayed in a real Trio task",
        text="for every reachable forest state extract(target) is called by the observer the behaviour names (main, the target itself, a child, an unrelated greenlet) and must return the target's own segment (entry .. switch point), nothing for unstarted/dead; a greenlet running in another thread must give an error; greenback alternation depth 0..3 from outside and inside the task; for portal behaviours each real frame list (inside and outside observation after every action) is compared frame by frame with the specification's Walk: class of every frame incl. greenback / outcome internals, user frame index, hide flags, contexts; the same bridges under asyncio, last resumed by a value and by a thrown CancelledError (outcome.Error.send on the stack)",
        note="3.12 only; F8 (observer descends from the target) and F17 (with_portal_run_sync) were found by this check and repaired in /repo (e26936e, 81260ea); PyPy-specific code paths unreachable",
        ref="3.7, 4 C15"),
    "C16": dict(
        technique="TLC on ExtractIter with generator-type wrappers (OriginContract, OutermostIsFirst); origin contract evaluated on every real chain (suspended and running) via API and via the trace spec's verdict; extract_outermost vs extract on given tables",
        text="origin contract and extract_outermost == first frame hold for all tables in the bound on the model (strictly since the repair of F5; FixedF5 = FALSE reproduces the old behaviour), for every chain of the C03 space on 3.9-3.12 including running carriers, and for thousands of synthetic table sets",
        note="F5 (inherited origin of frames inward of a running generator-type item) was found by this check and repaired in /repo (beeeeb8); threads, greenlets and custom items are covered by the other_items part",
        ref="3.1, 4 C16"),
}

NOT_YET = "check not built yet (work in progress; see DESIGN.md section 9)"


def main():
    checks = []
    for pid in PROPS:
        c = CHECKS.get(pid)
        if not c:
            continue
        checks.append({
            "property_id": pid,
            "quick_cmd": f"./check {pid} --tier quick",
            "thorough_cmd": f"./check {pid} --tier thorough",
            "evidence_file": f"evidence/{pid}.json",
            "replay_cmd_template": f"./check {pid} --replay {{path}}",
            "engine": "tlc+replay",
            "level_claimed": {"category": c.get("level", MC), "text": c["text"], "design_ref": "DESIGN.md " + c["ref"]},
            "level_note": c["note"],
            "technique": c["technique"],
        })
    m = {
        "version": 1,
        "setup_cmd": "./setup.sh",
        "hooks": {
            "guard": "STACKSCOPE_VERIF",
            "enable": "STACKSCOPE_VERIF=1 in the environment of the interpreter that imports /repo/stackscope (read once at import by stackscope/_verif.py); checks import stackscope straight from /repo's working tree (PYTHONPATH=/repo), no build step",
            "baseline_off_cmd": "cd /repo && env -u STACKSCOPE_VERIF /venv/bin/python -m pytest -ra -q -p no:cacheprovider --timeout=900 --continue-on-collection-errors",
            "source_commits": HOOK_COMMITS,
            "add_only": True,
        },
        "engines": [
            {"name": "tlc+replay", "path": "check", "serves_properties": sorted(CHECKS),
             "kind_free_text": "explicit TLA+ specifications (spec/*.tla) checked with TLC; behaviours replayed on / traces recorded from the real implementation and compared with the specification (harness/)"},
            {"name": "apalache", "path": "spec/apalache/TrickeryInd.tla", "serves_properties": ["C20"],
             "kind_free_text": "inductive invariant of the mode switch (Init => IndInv, IndInv /\\ Next => IndInv') discharged by apalache-mc inside ./check C20; skipped with a recorded assumption if apalache-mc is absent"}
        ],
        "checks": checks,
        "notes": "See DESIGN.md. known_findings.json lists genuine defects (known / fixed).",
        "not_applicable": [{"property_id": p, "reason": NOT_YET} for p in PROPS if p not in CHECKS],
    }
    (VERIF / "MANIFEST.json").write_text(json.dumps(m, indent=1) + "\n")


if __name__ == "__main__":
    main()
