"""Per-run context: collects coverage counters, samples, violations and known findings, writes
the evidence file and decides the exit status (verdict protocol of DESIGN.md 2.4)."""
from __future__ import annotations

import json
import time
from pathlib import Path
from typing import Any, Dict, List, Optional

from .common import BUILD, EVIDENCE, VERIF, dump_json, seed
from .tlc import TLCResult

FINDINGS_FILE = VERIF / "known_findings.json"


def load_findings() -> Dict[str, dict]:
    if not FINDINGS_FILE.exists():
        return {}
    data = json.loads(FINDINGS_FILE.read_text())
    return {f["id"]: f for f in data.get("findings", [])}


class Ctx:
    def __init__(self, pid: str, tier: str):
        self.pid = pid
        self.tier = tier
        self.seed = seed()
        self.t0 = time.time()
        self.states = 0
        self.transitions = 0
        self.traces = 0
        self.replays = 0
        self.samples: List[Any] = []
        self.assumptions: List[str] = []
        self.extra: Dict[str, Any] = {}
        self.tlc_runs: List[dict] = []
        self.violations: List[dict] = []
        self.known_hits: Dict[str, List[str]] = {}
        self.findings = load_findings()
        self.explanation = ""

    # ---- accumulation
    def tlc(self, res: TLCResult, label: Optional[str] = None) -> TLCResult:
        self.states += res.distinct
        self.transitions += res.generated
        s = res.summary()
        if label:
            s["label"] = label
        self.tlc_runs.append(s)
        return res

    def sample(self, obj: Any, limit: int = 6) -> None:
        if len(self.samples) < limit:
            self.samples.append(obj)

    def assume(self, text: str) -> None:
        if text not in self.assumptions:
            self.assumptions.append(text)

    def count(self, key: str, n: int = 1) -> None:
        self.extra[key] = self.extra.get(key, 0) + n

    def note(self, key: str, value: Any) -> None:
        self.extra[key] = value

    # ---- verdicts
    def violation(self, what: str, data: Any = None) -> None:
        self.violations.append({"what": what, "data": data})

    def known(self, fid: str, what: str) -> None:
        """A failing behaviour whose independent signature matches listed finding `fid`.
        If `fid` is not listed as a *known* (unfixed) finding for this property, it is a violation."""
        f = self.findings.get(fid)
        if f is None or f.get("status") != "known" or self.pid not in f.get("properties", []):
            self.violation(f"[{fid}-like] {what}", None)
            return
        self.known_hits.setdefault(fid, []).append(what)

    def classify(self, fid: Optional[str], what: str, data: Any = None) -> None:
        if fid is None:
            self.violation(what, data)
        else:
            self.known(fid, what)

    # ---- finish
    def finish(self) -> int:
        wall = time.time() - self.t0
        cov: Dict[str, Any] = {
            "states": self.states,
            "transitions": self.transitions,
            "traces_validated_against_impl": self.traces,
            "behaviours_replayed_on_impl": self.replays,
            "samples": self.samples or ["<none>"],
            "tlc_runs": self.tlc_runs,
            "explanation": self.explanation,
            "known_findings_hit": {k: len(v) for k, v in self.known_hits.items()},
        }
        cov.update(self.extra)
        ev = {
            "property_id": self.pid,
            "tier": self.tier,
            "seed": self.seed,
            "level": "model_checking",
            "coverage": cov,
            "assumptions": self.assumptions,
            "wall_s": round(wall, 2),
            "violations": len(self.violations),
        }
        dump_json(EVIDENCE / f"{self.pid}.json", ev)
        for fid, hits in sorted(self.known_hits.items()):
            f = self.findings[fid]
            print(f"KNOWN-FINDING: property={self.pid} {fid}: {f['what']} ({len(hits)} behaviours, e.g. {hits[0][:200]})")
        if self.violations:
            rdir = BUILD / "replay"
            rdir.mkdir(parents=True, exist_ok=True)
            path = rdir / f"{self.pid}-{self.tier}.json"
            dump_json(path, {"property": self.pid, "violations": self.violations[:50]})
            for v in self.violations[:5]:
                print(f"  detail: {v['what'][:600]}")
            print(f"VIOLATION property={self.pid} replay={path}")
            return 1
        print(f"OK property={self.pid} tier={self.tier} states={self.states} replays={self.replays} "
              f"traces={self.traces} wall={wall:.1f}s")
        return 0
