#!/bin/sh
# Offline setup: vendor typing_extensions for the bare pyenv interpreters, parse every spec.
set -e
cd "$(dirname "$0")"
mkdir -p .build/vendor evidence
if [ ! -f .build/vendor/typing_extensions.py ]; then
  /venv/bin/python - <<'PY'
import zipfile, glob
w = sorted(glob.glob('/opt/veriftools/wheels/typing_extensions-*.whl'))[-1]
zipfile.ZipFile(w).extract('typing_extensions.py', '.build/vendor')
PY
fi
/venv/bin/python -m compileall -q harness >/dev/null
/venv/bin/python -m harness.setup_specs
echo setup ok
